(* Line-oriented driver around the extracted CStruct / NVRAM sub-model (engine "cstruct").
   One case per input line, one result line out.  No logic of its own: token parsing and printing only.
   Definitions:  [ i4 b8 [ i1 i2 ] ]     (i<k> = CInt k, b<k> = CBytes k, [ .. ] = nested field list)
   Values:       [ n1f x0102 [ n0 n1 ] ] (n<hex> = integer, x<hexbytes|-> = byte field, [ .. ] = struct)
   Byte strings: hex, "-" = empty. *)
open Model_cstruct

let rec pos_of_int i = if i = 1 then XH else if i land 1 = 1 then XI (pos_of_int (i lsr 1)) else XO (pos_of_int (i lsr 1))
let n_of_int i = if i = 0 then N0 else Npos (pos_of_int i)
let rec int_of_pos = function XH -> 1 | XO p -> 2 * int_of_pos p | XI p -> 2 * int_of_pos p + 1
let int_of_n = function N0 -> 0 | Npos p -> int_of_pos p
let rec nat_of_int i = if i = 0 then O else S (nat_of_int (i - 1))
let rec int_of_nat = function O -> 0 | S n -> 1 + int_of_nat n
let nati s = nat_of_int (int_of_string s)
let sn n = string_of_int (int_of_nat n)

let bytes_of_hex s =
  if s = "-" then [] else
  let n = String.length s / 2 in
  List.init n (fun i -> n_of_int (int_of_string ("0x" ^ String.sub s (2 * i) 2)))
let hex_of_bytes l =
  if l = [] then "-" else String.concat "" (List.map (fun b -> Printf.sprintf "%02x" (int_of_n b)) l)

(* arbitrary-size integers travel as hex digits; converted with the extracted N arithmetic *)
let n16 = n_of_int 16
let n_of_hex s =
  let acc = ref N0 in
  String.iter (fun c -> acc := N.add (N.mul !acc n16) (n_of_int (int_of_string ("0x" ^ String.make 1 c)))) s;
  !acc
let rec hex_of_n n =
  if n = N0 then "" else hex_of_n (N.div n n16) ^ Printf.sprintf "%x" (int_of_n (N.modulo n n16))
let hexn n = let s = hex_of_n n in if s = "" then "0" else s

let tail s = String.sub s 1 (String.length s - 1)

let rec parse_ty toks = match toks with
  | "[" :: rest -> let (fs, rest') = parse_tys rest in (CNested fs, rest')
  | t :: rest when t.[0] = 'i' -> (CInt (nati (tail t)), rest)
  | t :: rest when t.[0] = 'b' -> (CBytes (nati (tail t)), rest)
  | _ -> failwith "bad type token"
and parse_tys toks = match toks with
  | "]" :: rest -> ([], rest)
  | _ -> let (f, rest) = parse_ty toks in let (fs, rest') = parse_tys rest in (f :: fs, rest')

let rec parse_val toks = match toks with
  | "[" :: rest -> let (vs, rest') = parse_vals rest in (VStruct vs, rest')
  | t :: rest when t.[0] = 'n' -> (VInt (n_of_hex (tail t)), rest)
  | t :: rest when t.[0] = 'x' -> (VBytes (bytes_of_hex (tail t)), rest)
  | _ -> failwith "bad value token"
and parse_vals toks = match toks with
  | "]" :: rest -> ([], rest)
  | _ -> let (v, rest) = parse_val toks in let (vs, rest') = parse_vals rest in (v :: vs, rest')

let fields_of = function CNested fs -> fs | _ -> failwith "definition must be a field list"
let vals_of = function VStruct vs -> vs | _ -> failwith "value must be a field list"

let rec show_val = function
  | VInt n -> "n" ^ hexn n
  | VBytes b -> "x" ^ hex_of_bytes b
  | VStruct vs -> "[" ^ String.concat "," (List.map show_val vs) ^ "]"

let show_pairs l = if l = [] then "-" else String.concat "," (List.map (fun (a, b) -> sn a ^ ":" ^ sn b) l)
let show_nats l = if l = [] then "-" else String.concat "," (List.map sn l)
let parse_pairs s =
  if s = "-" then [] else
  List.map (fun t -> match String.split_on_char ':' t with
    | [a; b] -> (nati a, nati b) | _ -> failwith "bad pair") (String.split_on_char ',' s)

let bit b = if b then "1" else "0"
let records toks = let (v, _) = parse_val toks in List.map vals_of (vals_of v)
let show_records rs = if rs = [] then "-" else String.concat ";" (List.map (fun r -> show_val (VStruct r)) rs)
let show_parse = function
  | None -> "VE"
  | Some (rs, rest) -> "OK " ^ show_records rs ^ " " ^ hex_of_bytes rest
let show_opt_bytes = function None -> "VE" | Some b -> hex_of_bytes b

let handle toks =
  match toks with
  | "layout" :: al :: def ->
      let al = (al = "1") in
      let (t, _) = parse_ty def in
      let fs = fields_of t in
      if not (wf t) then "BADDEF" else
      Printf.sprintf "%s %s %s %s %s" (sn (cs_size al fs)) (sn (cs_alignment al fs)) (show_pairs (cs_padded al fs))
        (show_nats (cs_offsets al fs)) (show_pairs (List.map (size_align al) fs))
  | "ser" :: al :: rest ->
      let al = (al = "1") in
      let (t, rest') = parse_ty rest in
      (match rest' with
       | "/" :: vt -> let (v, _) = parse_val vt in show_opt_bytes (cs_serialize al (fields_of t) (vals_of v))
       | _ -> failwith "ser: missing /")
  | "deser" :: al :: rest ->
      let al = (al = "1") in
      let (t, rest') = parse_ty rest in
      (match rest' with
       | ["/"; h] ->
           (match cs_deserialize al (fields_of t) (bytes_of_hex h) with
            | CValueError -> "VE"
            | COk (v, r) -> "OK " ^ show_val v ^ " " ^ hex_of_bytes r)
       | _ -> failwith "deser: missing / hex")
  | ["natural"; total; align; sas; pads] ->
      let sas = parse_pairs sas and pads = parse_pairs pads in
      bit (natural_layout_b O sas pads) ^ " " ^ bit (natural_total_b sas pads (nati total) (nati align))
  | "valid" :: rest ->
      let (t, rest') = parse_ty rest in
      (match rest' with "/" :: vt -> let (v, _) = parse_val vt in bit (valid t v) | _ -> failwith "valid: missing /")
  | "zsize" :: def -> let (t, _) = parse_ty def in sn (zs_size (fields_of t))
  | "zser" :: rest ->
      let (t, rest') = parse_ty rest in
      (match rest' with
       | "/" :: vt -> let (v, _) = parse_val vt in show_opt_bytes (zs_ser (fields_of t) (vals_of v))
       | _ -> failwith "zser: missing /")
  | ["addrparse"; h] -> show_parse (parse_addr_map (bytes_of_hex h))
  | "addrser" :: recs -> show_opt_bytes (serialize_addr_map (records recs))
  | ["apsparse"; h] -> show_parse (parse_aps_keys (bytes_of_hex h))
  | "apsser" :: recs -> show_opt_bytes (serialize_aps_keys (records recs))
  | ["apscount"; len] -> sn (aps_entry_count (n_of_int (int_of_string len)))
  | "apslayout" :: x4 :: recs ->
      let rs = records recs in
      (match ser_items aps_entry_ty rs with
       | None -> "VE"
       | Some items -> hex_of_bytes (aps_keys_read_layout (bytes_of_hex x4) (nat_of_int (List.length rs)) items))
  | "addrlayout" :: bc :: ver :: al :: recs ->
      let rs = records recs in
      (match ser_items addr_rec_ty rs with
       | None -> "VE"
       | Some items -> hex_of_bytes (addr_map_read_layout (n_of_int (int_of_string bc)) (n_of_int (int_of_string ver))
                                       (n_of_int (int_of_string al)) (nat_of_int (List.length rs)) items))
  | ["readbytes"; h] -> hex_of_bytes (nvram_read_bytes (bytes_of_hex h))
  | _ -> "ERROR unknown command: " ^ String.concat " " toks

let () =
  try
    while true do
      let line = input_line stdin in
      let toks = List.filter (fun s -> s <> "") (String.split_on_char ' ' line) in
      let out = try handle toks with e -> "ERROR " ^ Printexc.to_string e in
      print_string out; print_newline ()
    done
  with End_of_file -> ()
