(* Line-oriented driver around the extracted model: one case per input line, one result line out.
   Tokens: decimal naturals, hex byte strings ("-" = empty).  No logic of its own. *)
open Model

let rec pos_of_int i = if i = 1 then XH else if i land 1 = 1 then XI (pos_of_int (i lsr 1)) else XO (pos_of_int (i lsr 1))
let n_of_int i = if i = 0 then N0 else Npos (pos_of_int i)
let rec int_of_pos = function XH -> 1 | XO p -> 2 * int_of_pos p | XI p -> 2 * int_of_pos p + 1
let int_of_n = function N0 -> 0 | Npos p -> int_of_pos p
let rec nat_of_int i = if i = 0 then O else S (nat_of_int (i - 1))
let rec int_of_nat = function O -> 0 | S n -> 1 + int_of_nat n
(* arbitrary-precision decimal <-> N (uint64 values exceed OCaml's 63-bit int) *)
let n_of_dec (s : Stdlib.String.t) : n =
  if Stdlib.String.length s <= 17 then n_of_int (int_of_string s) else begin
    let d = Array.init (Stdlib.String.length s) (fun i -> Char.code s.[i] - 48) in
    let is_zero () = Array.for_all (fun x -> x = 0) d in
    let bits = ref [] in
    while not (is_zero ()) do
      let carry = ref 0 in
      for i = 0 to Array.length d - 1 do
        let cur = !carry * 10 + d.(i) in d.(i) <- cur / 2; carry := cur mod 2
      done;
      bits := !carry :: !bits            (* collected LSB first, so the list ends up MSB first *)
    done;
    match !bits with
    | [] -> N0
    | _ :: rest -> Npos (List.fold_left (fun p b -> if b = 1 then XI p else XO p) XH rest)
  end
let dec_of_n (x : n) : Stdlib.String.t =
  let rec bits_of_pos p acc = match p with XH -> 1 :: acc | XO q -> bits_of_pos q (0 :: acc) | XI q -> bits_of_pos q (1 :: acc) in
  match x with
  | N0 -> "0"
  | Npos p ->
      let bits = bits_of_pos p [] in      (* MSB first *)
      if List.length bits <= 60 then string_of_int (int_of_pos p) else begin
        let d = ref [0] in                (* decimal digits, least significant first *)
        List.iter (fun b ->
          let carry = ref b in
          d := List.map (fun x -> let v = 2 * x + !carry in carry := v / 10; v mod 10) !d;
          if !carry > 0 then d := !d @ [!carry]) bits;
        Stdlib.String.concat "" (List.rev_map string_of_int !d)
      end
let ni s = n_of_dec s
let si n = dec_of_n n

let bytes_of_hex s =
  if s = "-" then [] else
  let n = String.length s / 2 in
  List.init n (fun i -> n_of_int (int_of_string ("0x" ^ String.sub s (2 * i) 2)))
let hex_of_bytes l =
  if l = [] then "-" else String.concat "" (List.map (fun b -> Printf.sprintf "%02x" (int_of_n b)) l)

let llfield = function "0" -> LSig | "1" -> LSize | "2" -> LType | "3" -> LFlags | _ -> LCrc8
let hlfield = function "0" -> HVersion | "1" -> HType | _ -> HId

let show_w (w : wframe) =
  Printf.sprintf "F(%d,%d,%d,%s,%s,%s)" (int_of_n w.w_size) (int_of_n w.w_flags) (int_of_n w.w_crc8)
    (if w.w_ack then "ack" else "data")
    (match w.w_hdr with None -> "-" | Some h -> si h) (hex_of_bytes w.w_data)

let show_out = function
  | OWrite b -> "W:" ^ hex_of_bytes b
  | ODeliver f -> "D:" ^ show_w f
  | OAckSet -> "A"

(* ---- wire types and values: text syntax ----
   type:  I<w> | F<n> | B<h>:<cap> | L<h>(<ty>) | X<n>(<ty>) | G(<ty>) | S(<ty>,...) | D
   value: i<n> | b<hex or -> | l(<v>,...) *)
let parse_ty (s : Stdlib.String.t) : wty =
  let pos = ref 0 in
  let peek () = if !pos < String.length s then s.[!pos] else '\000' in
  let adv () = incr pos in
  let num () = let st = !pos in while (let c = peek () in c >= '0' && c <= '9') do adv () done;
    int_of_string (String.sub s st (!pos - st)) in
  let rec ty () =
    let c = peek () in adv ();
    match c with
    | 'I' -> TInt (nat_of_int (num ()))
    | 'F' -> TFixBytes (nat_of_int (num ()))
    | 'B' -> let h = num () in adv (); let cap = num () in TLVBytes (nat_of_int h, n_of_int cap)
    | 'L' -> let h = num () in adv (); let t = ty () in adv (); TLVList (nat_of_int h, t)
    | 'X' -> let n = num () in adv (); let t = ty () in adv (); TFixList (nat_of_int n, t)
    | 'G' -> adv (); let t = ty () in adv (); TGreedy t
    | 'S' -> adv ();
        let rec items acc = if peek () = ')' then (adv (); List.rev acc) else begin
          let t = ty () in (if peek () = ',' then adv ()); items (t :: acc) end in
        TStruct (items [])
    | 'D' -> TSimpleDesc
    | _ -> failwith "bad type syntax" in
  ty ()

let parse_val (s : Stdlib.String.t) : value =
  let pos = ref 0 in
  let peek () = if !pos < String.length s then s.[!pos] else '\000' in
  let adv () = incr pos in
  let rec v () =
    let c = peek () in adv ();
    match c with
    | 'i' -> let st = !pos in while (let c = peek () in c >= '0' && c <= '9') do adv () done;
        VInt (n_of_dec (String.sub s st (!pos - st)))
    | 'b' -> let st = !pos in while (let c = peek () in (c >= '0' && c <= '9') || (c >= 'a' && c <= 'f') || c = '-') do adv () done;
        VBytes (bytes_of_hex (String.sub s st (!pos - st)))
    | 'l' -> adv ();
        let rec items acc = if peek () = ')' then (adv (); List.rev acc) else begin
          let x = v () in (if peek () = ',' then adv ()); items (x :: acc) end in
        VList (items [])
    | _ -> failwith "bad value syntax" in
  v ()

let rec show_val = function
  | VInt n -> "i" ^ si n
  | VBytes b -> "b" ^ hex_of_bytes b
  | VList l -> "l(" ^ String.concat "," (List.map show_val l) ^ ")"

let show_assign a = String.concat " " (List.map (function None -> "n" | Some v -> show_val v) a)
let parse_assign toks = List.map (fun t -> if t = "n" then None else Some (parse_val t)) toks
let nth_cmd i = List.nth schemas i
let rec show_string (s : Model.string) : Stdlib.String.t = match s with
  | EmptyString -> ""
  | String (Ascii (b0, b1, b2, b3, b4, b5, b6, b7), r) ->
      let bit b k = if b then 1 lsl k else 0 in
      Stdlib.String.make 1 (Char.chr (bit b0 0 + bit b1 1 + bit b2 2 + bit b3 3 + bit b4 4 + bit b5 5 + bit b6 6 + bit b7 7))
      ^ show_string r

let handle toks =
  match toks with
  | ["crc8"; s; h] -> si (crc8_from (ni s) (bytes_of_hex h))
  | ["crc16"; s; h] -> si (crc16_from (ni s) (bytes_of_hex h))
  | ["crc8spec"; h] -> si (crc8_spec (bytes_of_hex h))
  | ["crc16spec"; h] -> si (crc16_spec (bytes_of_hex h))
  | ["llget"; f; h] -> si (ll_get (llfield f) (ni h))
  | ["llwith"; f; h; v] -> si (ll_with (llfield f) (ni h) (ni v))
  | ["hlget"; f; h] -> si (hl_get (hlfield f) (ni h))
  | ["hlwith"; f; h; v] -> si (hl_with (hlfield f) (ni h) (ni v))
  | ["toframe"; h; d; seq] ->
      (match to_frame (ni h) (bytes_of_hex d) with
       | None -> "NONE"
       | Some f -> hex_of_bytes (serialize f) ^ " " ^ hex_of_bytes (serialize (stamp (ni seq) f)))
  | ["ack"; seq; rt] -> hex_of_bytes (serialize (ack_frame (ni seq) (rt = "1")))
  | ["frag"; h; d] ->
      (match to_frame (ni h) (bytes_of_hex d) with
       | None -> "NONE"
       | Some f -> String.concat "|" (List.map (fun g -> hex_of_bytes (serialize g)) (tx_fragment f)))
  | ["specdec"; b] ->
      (match spec_decode (bytes_of_hex b) with
       | None -> "NONE"
       | Some (w, rest) -> show_w w ^ " " ^ string_of_int (List.length rest))
  | ["claims"; b] ->
      (match claims (bytes_of_hex b) with None -> "NONE" | Some (sz, fl) -> si sz ^ " " ^ si fl)
  | ["extract"; b] ->
      (match extract_frame_x (bytes_of_hex b) with
       | XF (w, n) -> show_w w ^ " " ^ string_of_int (int_of_nat n)
       | XShort -> "SHORT" | XInv -> "INVALID" | XRaise -> "RAISE")
  | "txseq" :: s0 :: evs ->
      let ev_of t = match String.split_on_char ':' t with
        | ["s"; h; d] -> (match to_frame (ni h) (bytes_of_hex d) with Some f -> TSend f | None -> failwith "toframe")
        | ["a"; n] -> TAck (ni n)
        | ["x"] -> TExpire
        | ["d"; q] -> TDataIn (ni q)
        | ["c"] -> TClose
        | _ -> failwith ("bad event " ^ t) in
      let (s, ws) = trun (ni s0) (List.map ev_of evs) in
      String.concat ";" (List.map hex_of_bytes ws) ^ " // seq=" ^ si s
  | ["wenc"; ty; v] -> let t = parse_ty ty and x = parse_val v in
      if valid t x then hex_of_bytes (enc t x) else "INVALID"
  | ["wdec"; ty; d] -> (match dec (parse_ty ty) (bytes_of_hex d) with
      | None -> "NONE" | Some (v, r) -> show_val v ^ " " ^ hex_of_bytes r)
  | "cmdenc" :: idx :: a -> let c = nth_cmd (int_of_string idx) in let a = parse_assign a in
      if construct_ok c.c_params a then hex_of_bytes (enc_params c.c_params a) else "REFUSED"
  | ["cmddec"; idx; d] -> let c = nth_cmd (int_of_string idx) in
      (match from_body c (bytes_of_hex d) with
       | Accept a -> "A " ^ show_assign a | Partial a -> "P " ^ show_assign a | Reject -> "R")
  (* the same decoders over the PINNED schemas (the protocol as pinned at the interoperating revision), by class name *)
  | ["pcmddec"; name; d] ->
      (match List.filter (fun c -> show_string c.c_name = name) pinned_schemas with
       | c :: _ -> (match from_body c (bytes_of_hex d) with
                    | Accept a -> "A " ^ show_assign a | Partial a -> "P " ^ show_assign a | Reject -> "R")
       | [] -> "NOCLASS")
  | ["schemaok"; idx] -> let c = nth_cmd (int_of_string idx) in if schema_ok c.c_params then "1" else "0"
  | "txs" :: evs ->
      let nat s = nat_of_int (int_of_string s) in
      let ev_of t = match String.split_on_char ':' t with
        | ["S"; tag] -> TSendE (nat tag) | ["A"; n] -> TAckE (ni n) | ["T"; dt] -> TTickE (ni dt)
        | ["C"; tag] -> TCancelE (nat tag) | ["D"] -> TDataE | ["X"] -> TCloseE
        | _ -> failwith ("bad event " ^ t) in
      let show_o = function
        | TW (t, q) -> Printf.sprintf "U:%d:%d" (int_of_nat t) (int_of_n q)
        | TEnd (t, w) -> Printf.sprintf "F:%d:%s" (int_of_nat t) (match int_of_nat w with 2 | 4 -> "CANCELLED" | _ -> "OK")
        | TCall _ -> ""
        | TK q -> "K:" ^ si q in
      let st = ref tinit in
      let parts = List.map (fun t ->
        let (s', os) = tstep_obs !st (ev_of t) in st := s';
        String.concat " " (List.filter (fun x -> x <> "") (List.map show_o os))) evs in
      String.concat " / " parts ^ " // seq=" ^ si (!st).t_seq
  | "api" :: evs ->
      let nat s = nat_of_int (int_of_string s) in
      let ev_of t = match String.split_on_char ':' t with
        | ["I"; rid; cls; b; n; tmo] -> EIssue (nat rid, ni cls, b = "1", nat n, ni tmo)
        | ["A"; n] -> EAck (ni n)
        | ["R"; cls] -> ERsp (ni cls)
        | ["D"] -> EData
        | ["T"; dt] -> ETick (ni dt)
        | ["C"; rid] -> ECancel (nat rid)
        | ["X"] -> EClose | ["L"] -> ELost | ["RB"] -> EResetBegin | ["RE"] -> EResetEnd
        | _ -> failwith ("bad event " ^ t) in
      let show_o = function
        | OW (r, k, q) -> Printf.sprintf "W:%d.%d:%d" (int_of_nat r) (int_of_nat k) (int_of_n q)
        | OK q -> "K:" ^ si q
        | OE (r, o) -> Printf.sprintf "E:%d:%s" (int_of_nat r)
            (match o with ORsp -> "R" | OTimeout -> "TIMEOUT" | OCancelled -> "CANCELLED" | ORuntime -> "RUNTIME")
        | OL -> "L"
        | _ -> "" in
      let st = ref init in
      let parts = List.map (fun t ->
        (* "R2:c1:c2": two response frames arriving in ONE read chunk = two consecutive response events, one step *)
        let es = (match String.split_on_char ':' t with
                  | ["R2"; c1; c2] -> [ERsp (ni c1); ERsp (ni c2)]
                  | _ -> [ev_of t]) in
        let os = List.concat (List.map (fun e -> let (s', os) = step_obs !st e in st := s'; os) es) in
        String.concat " " (List.filter (fun x -> x <> "") (List.map show_o os))) evs in
      let pending = List.length (List.filter (fun r ->
        (match r.r_phase with PDone _ -> false | _ -> true) && (match r.r_fut with FPending -> true | _ -> false)) (!st).reqs) in
      String.concat " / " parts ^ " // listeners=" ^ string_of_int pending ^ " seq=" ^ si (!st).pack_seq
  | ["reasm"; b] ->
      (* wire bytes -> spec parse -> data frames -> reassembly: the messages handed to dispatch *)
      let frames = List.filter (fun w -> not w.w_ack) (List.map snd (spec_parse_pos (bytes_of_hex b))) in
      let (pending, msgs) = reasm_run [] frames in
      String.concat ";" (List.map (function
        | RMsg (h, d) -> "M:" ^ si h ^ ":" ^ hex_of_bytes d
        | RNoHeader d -> "N:" ^ hex_of_bytes d
        | RShort -> "S") msgs) ^ " // pending=" ^ string_of_int (List.length pending)
  | ["specparse"; b] ->
      String.concat ";" (List.map (fun (o, w) -> string_of_int (int_of_nat o) ^ ":" ^ show_w w) (spec_parse_pos (bytes_of_hex b)))
  | ["specack"; q] -> hex_of_bytes (spec_ack_bytes (ni q))
  | "rx" :: pseq :: ev :: opn :: buf :: chunks ->
      let st0 = { rx_buf = bytes_of_hex buf; rx_pack_seq = ni pseq;
                  rx_ack_event = (match ev with "n" -> None | "1" -> Some true | _ -> Some false);
                  rx_open = (opn = "1") } in
      let st = ref st0 in
      let parts = List.map (fun c ->
        let ((st1, outs), raised) = data_received (fun _ -> false) !st (bytes_of_hex c) in
        st := st1;
        (if raised then "RAISED;" else "") ^ String.concat ";" (List.map show_out outs)) chunks in
      String.concat " / " parts ^ " // seq=" ^ si !st.rx_pack_seq ^ " ev=" ^
        (match !st.rx_ack_event with None -> "n" | Some true -> "1" | Some false -> "0") ^
        " buf=" ^ hex_of_bytes !st.rx_buf
  | _ -> "ERROR unknown command: " ^ String.concat " " toks

let () =
  try
    while true do
      let line = input_line stdin in
      let toks = List.filter (fun s -> s <> "") (String.split_on_char ' ' line) in
      let out = try handle toks with e -> "ERROR " ^ Printexc.to_string e in
      print_string out; print_newline ()
    done
  with End_of_file -> ()
