(* Line-oriented driver around the extracted model: one case per input line, one result line out.
   Tokens: decimal naturals, hex byte strings ("-" = empty).  No logic of its own. *)
open Model

let rec pos_of_int i = if i = 1 then XH else if i land 1 = 1 then XI (pos_of_int (i lsr 1)) else XO (pos_of_int (i lsr 1))
let n_of_int i = if i = 0 then N0 else Npos (pos_of_int i)
let rec int_of_pos = function XH -> 1 | XO p -> 2 * int_of_pos p | XI p -> 2 * int_of_pos p + 1
let int_of_n = function N0 -> 0 | Npos p -> int_of_pos p
let rec nat_of_int i = if i = 0 then O else S (nat_of_int (i - 1))
let rec int_of_nat = function O -> 0 | S n -> 1 + int_of_nat n

let bytes_of_hex s =
  if s = "-" then [] else
  let n = String.length s / 2 in
  List.init n (fun i -> n_of_int (int_of_string ("0x" ^ String.sub s (2 * i) 2)))
let hex_of_bytes l =
  if l = [] then "-" else String.concat "" (List.map (fun b -> Printf.sprintf "%02x" (int_of_n b)) l)

let handle toks =
  match toks with
  | ["crc8"; s; h] -> string_of_int (int_of_n (crc8_from (n_of_int (int_of_string s)) (bytes_of_hex h)))
  | ["crc16"; s; h] -> string_of_int (int_of_n (crc16_from (n_of_int (int_of_string s)) (bytes_of_hex h)))
  | ["crc8spec"; h] -> string_of_int (int_of_n (crc8_spec (bytes_of_hex h)))
  | ["crc16spec"; h] -> string_of_int (int_of_n (crc16_spec (bytes_of_hex h)))
  | _ -> Driver_ext.handle toks

let () =
  try
    while true do
      let line = input_line stdin in
      let toks = List.filter (fun s -> s <> "") (String.split_on_char ' ' line) in
      let out = try handle toks with e -> "ERROR " ^ Printexc.to_string e in
      print_string out; print_newline ()
    done
  with End_of_file -> ()
