(* Line-oriented driver around the extracted model: one case per input line, one result line out.
   Tokens: decimal naturals, hex byte strings ("-" = empty).  No logic of its own. *)
open Model

let rec pos_of_int i = if i = 1 then XH else if i land 1 = 1 then XI (pos_of_int (i lsr 1)) else XO (pos_of_int (i lsr 1))
let n_of_int i = if i = 0 then N0 else Npos (pos_of_int i)
let rec int_of_pos = function XH -> 1 | XO p -> 2 * int_of_pos p | XI p -> 2 * int_of_pos p + 1
let int_of_n = function N0 -> 0 | Npos p -> int_of_pos p
let rec nat_of_int i = if i = 0 then O else S (nat_of_int (i - 1))
let rec int_of_nat = function O -> 0 | S n -> 1 + int_of_nat n
let ni s = n_of_int (int_of_string s)
let si n = string_of_int (int_of_n n)

let bytes_of_hex s =
  if s = "-" then [] else
  let n = String.length s / 2 in
  List.init n (fun i -> n_of_int (int_of_string ("0x" ^ String.sub s (2 * i) 2)))
let hex_of_bytes l =
  if l = [] then "-" else String.concat "" (List.map (fun b -> Printf.sprintf "%02x" (int_of_n b)) l)

let llfield = function "0" -> LSig | "1" -> LSize | "2" -> LType | "3" -> LFlags | _ -> LCrc8
let hlfield = function "0" -> HVersion | "1" -> HType | _ -> HId

let show_w (w : wframe) =
  Printf.sprintf "F(%d,%d,%d,%s,%s,%s)" (int_of_n w.w_size) (int_of_n w.w_flags) (int_of_n w.w_crc8)
    (if w.w_ack then "ack" else "data")
    (match w.w_hdr with None -> "-" | Some h -> si h) (hex_of_bytes w.w_data)

let show_out = function
  | OWrite b -> "W:" ^ hex_of_bytes b
  | ODeliver f -> "D:" ^ show_w f
  | OAckSet -> "A"

let handle toks =
  match toks with
  | ["crc8"; s; h] -> si (crc8_from (ni s) (bytes_of_hex h))
  | ["crc16"; s; h] -> si (crc16_from (ni s) (bytes_of_hex h))
  | ["crc8spec"; h] -> si (crc8_spec (bytes_of_hex h))
  | ["crc16spec"; h] -> si (crc16_spec (bytes_of_hex h))
  | ["llget"; f; h] -> si (ll_get (llfield f) (ni h))
  | ["llwith"; f; h; v] -> si (ll_with (llfield f) (ni h) (ni v))
  | ["hlget"; f; h] -> si (hl_get (hlfield f) (ni h))
  | ["hlwith"; f; h; v] -> si (hl_with (hlfield f) (ni h) (ni v))
  | ["toframe"; h; d; seq] ->
      (match to_frame (ni h) (bytes_of_hex d) with
       | None -> "NONE"
       | Some f -> hex_of_bytes (serialize f) ^ " " ^ hex_of_bytes (serialize (stamp (ni seq) f)))
  | ["ack"; seq; rt] -> hex_of_bytes (serialize (ack_frame (ni seq) (rt = "1")))
  | ["frag"; h; d] ->
      (match to_frame (ni h) (bytes_of_hex d) with
       | None -> "NONE"
       | Some f -> String.concat "|" (List.map (fun g -> hex_of_bytes (serialize g)) (tx_fragment f)))
  | ["specdec"; b] ->
      (match spec_decode (bytes_of_hex b) with
       | None -> "NONE"
       | Some (w, rest) -> show_w w ^ " " ^ string_of_int (List.length rest))
  | ["claims"; b] ->
      (match claims (bytes_of_hex b) with None -> "NONE" | Some (sz, fl) -> si sz ^ " " ^ si fl)
  | ["extract"; b] ->
      (match extract_frame_x (bytes_of_hex b) with
       | XF (w, n) -> show_w w ^ " " ^ string_of_int (int_of_nat n)
       | XShort -> "SHORT" | XInv -> "INVALID" | XRaise -> "RAISE")
  | "txseq" :: s0 :: evs ->
      let ev_of t = match String.split_on_char ':' t with
        | ["s"; h; d] -> (match to_frame (ni h) (bytes_of_hex d) with Some f -> TSend f | None -> failwith "toframe")
        | ["a"; n] -> TAck (ni n)
        | ["x"] -> TExpire
        | ["d"; q] -> TDataIn (ni q)
        | ["c"] -> TClose
        | _ -> failwith ("bad event " ^ t) in
      let (s, ws) = trun (ni s0) (List.map ev_of evs) in
      String.concat ";" (List.map hex_of_bytes ws) ^ " // seq=" ^ si s
  | ["specparse"; b] ->
      String.concat ";" (List.map (fun (o, w) -> string_of_int (int_of_nat o) ^ ":" ^ show_w w) (spec_parse_pos (bytes_of_hex b)))
  | ["specack"; q] -> hex_of_bytes (spec_ack_bytes (ni q))
  | "rx" :: pseq :: ev :: opn :: buf :: chunks ->
      let st0 = { rx_buf = bytes_of_hex buf; rx_pack_seq = ni pseq;
                  rx_ack_event = (match ev with "n" -> None | "1" -> Some true | _ -> Some false);
                  rx_open = (opn = "1") } in
      let st = ref st0 in
      let parts = List.map (fun c ->
        let ((st1, outs), raised) = data_received (fun _ -> false) !st (bytes_of_hex c) in
        st := st1;
        (if raised then "RAISED;" else "") ^ String.concat ";" (List.map show_out outs)) chunks in
      String.concat " / " parts ^ " // seq=" ^ si !st.rx_pack_seq ^ " ev=" ^
        (match !st.rx_ack_event with None -> "n" | Some true -> "1" | Some false -> "0") ^
        " buf=" ^ hex_of_bytes !st.rx_buf
  | _ -> "ERROR unknown command: " ^ String.concat " " toks

let () =
  try
    while true do
      let line = input_line stdin in
      let toks = List.filter (fun s -> s <> "") (String.split_on_char ' ' line) in
      let out = try handle toks with e -> "ERROR " ^ Printexc.to_string e in
      print_string out; print_newline ()
    done
  with End_of_file -> ()
