(* Line-oriented driver around the extracted radio-boundary model (C18): one case per input line, one result
   line out.  Tokens: decimal numbers, hex byte strings ("-" = empty), "n" = None.  No logic of its own. *)
open Model_radio

let rec pos_of_int i = if i = 1 then XH else if i land 1 = 1 then XI (pos_of_int (i lsr 1)) else XO (pos_of_int (i lsr 1))
let n_of_int i = if i = 0 then N0 else Npos (pos_of_int i)
let rec int_of_pos = function XH -> 1 | XO p -> 2 * int_of_pos p | XI p -> 2 * int_of_pos p + 1
let int_of_n = function N0 -> 0 | Npos p -> int_of_pos p
let z_of_int i = if i = 0 then Z0 else if i > 0 then Zpos (pos_of_int i) else Zneg (pos_of_int (- i))
let int_of_z = function Z0 -> 0 | Zpos p -> int_of_pos p | Zneg p -> - (int_of_pos p)
let ni s = n_of_int (int_of_string s)
let si n = string_of_int (int_of_n n)
let nopt s = if s = "n" then None else Some (ni s)
let sopt = function None -> "n" | Some v -> si v

let bytes_of_hex s =
  if s = "-" then [] else
  let n = String.length s / 2 in
  List.init n (fun i -> n_of_int (int_of_string ("0x" ^ String.sub s (2 * i) 2)))
let hex_of_bytes l =
  if l = [] then "-" else String.concat "" (List.map (fun b -> Printf.sprintf "%02x" (int_of_n b)) l)

let zaddr_of mode addr = match mode with
  | "g" -> ZGroup (ni addr) | "n" -> ZNwk (ni addr) | "b" -> ZBroadcast (ni addr)
  | "i" -> ZIeee (bytes_of_hex addr) | _ -> failwith "bad mode"
let show_zaddr = function
  | ZGroup a -> "g:" ^ si a | ZNwk a -> "n:" ^ si a | ZBroadcast a -> "b:" ^ si a | ZIeee bs -> "i:" ^ hex_of_bytes bs

let show_req (r : data_req) =
  String.concat " " [si r.dr_tsn; si r.dr_param_length; si r.dr_data_length; hex_of_bytes r.dr_dst_addr; si r.dr_profile;
                     si r.dr_cluster; si r.dr_dst_ep; si r.dr_src_ep; si r.dr_radius; si r.dr_dst_mode; si r.dr_tx_options;
                     si r.dr_use_alias; si r.dr_alias_src; si r.dr_alias_seq; hex_of_bytes r.dr_payload]

let show_bind (r : bind_params) =
  String.concat " " [si r.b_tsn; si r.b_target_nwk; hex_of_bytes r.b_src_ieee; si r.b_src_ep; si r.b_cluster;
                     si r.b_dst_mode; hex_of_bytes r.b_dst_addr; si r.b_dst_ep]

let handle toks =
  match toks with
  | ["send"; conn; srcep; dmode; daddr; dstep; tsn; profile; cluster; data; txo; radius] ->
      let p = { p_src = None; p_src_ep = nopt srcep; p_dst = zaddr_of dmode daddr; p_dst_ep = nopt dstep; p_tsn = ni tsn;
                p_profile = ni profile; p_cluster = ni cluster; p_data = bytes_of_hex data; p_tx_options = ni txo;
                p_radius = nopt radius; p_lqi = None; p_rssi = None } in
      (match send_packet_req (conn = "1") p with
       | SDisconnected -> "DISCONNECTED"
       | SZdo -> "ZDO"
       | SValueError -> "VALUEERROR"
       | SReq r -> "REQ " ^ show_req r ^ " ENC " ^ hex_of_bytes (encode_data_req r))
  | ["ind"; own; plen; fc; src; dst; grp; dstep; srcep; cluster; profile; pcount; srcmac; dstmac; lqi; rssi; keyattr; payload] ->
      let m = { di_param_length = ni "21"; di_payload_length = ni plen; di_frame_fc = ni fc; di_src_addr = ni src;
                di_dst_addr = ni dst; di_grp_addr = ni grp; di_dst_ep = ni dstep; di_src_ep = ni srcep; di_cluster = ni cluster;
                di_profile = ni profile; di_packet_counter = ni pcount; di_src_mac = ni srcmac; di_dst_mac = ni dstmac;
                di_lqi = ni lqi; di_rssi = z_of_int (int_of_string rssi); di_key_attr = ni keyattr;
                di_payload = bytes_of_hex payload } in
      (match apsde_to_packet (ni own) m with
       | IIndexError -> "INDEXERROR"
       | IPacket p ->
           String.concat " " ["PKT"; (match p.p_src with None -> "n" | Some a -> show_zaddr a); sopt p.p_src_ep;
                              show_zaddr p.p_dst; sopt p.p_dst_ep; si p.p_tsn; si p.p_profile; si p.p_cluster;
                              hex_of_bytes p.p_data; si p.p_tx_options; sopt p.p_radius; sopt p.p_lqi;
                              (match p.p_rssi with None -> "n" | Some z -> string_of_int (int_of_z z))])
  | ["seq"; n] -> si (next_sequence (ni n))
  | [("bind" | "unbind") as cmd; tsn; nwk; eui; ep; cluster; mode; manwk; maieee; maep; status] ->
      let dst = { ma_mode = ni mode; ma_nwk = nopt manwk;
                  ma_ieee = (if maieee = "n" then None else Some (bytes_of_hex maieee)); ma_endpoint = nopt maep } in
      let f = if cmd = "bind" then bind_req else unbind_req in
      (match f (ni tsn) (ni nwk) (bytes_of_hex eui) (ni ep) (ni cluster) dst (ni status) with
       | BRaise -> "RAISE"
       | BReq (c, r, s) ->
           "REQ " ^ (match c with CmdBind -> "bind" | CmdUnbind -> "unbind") ^ " " ^ show_bind r ^ " RET " ^ si s ^
           " ENC " ^ hex_of_bytes (encode_bind r))
  | _ -> "ERROR unknown command: " ^ String.concat " " toks

let () =
  try
    while true do
      let line = input_line stdin in
      let toks = List.filter (fun s -> s <> "") (String.split_on_char ' ' line) in
      let out = try handle toks with e -> "ERROR " ^ Printexc.to_string e in
      print_string out; print_newline ()
    done
  with End_of_file -> ()
