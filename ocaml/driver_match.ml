(* Line-oriented driver around the extracted "match" sub-model (C17, C12): one case per line in, one line out.
   Pattern token:  <type id>:<v>,<v>,...   with v a decimal natural or _ (not bound); no parameters: "<type id>:".
   No logic of its own. *)
open Model_match

let rec pos_of_int i = if i = 1 then XH else if i land 1 = 1 then XI (pos_of_int (i lsr 1)) else XO (pos_of_int (i lsr 1))
let n_of_int i = if i = 0 then N0 else Npos (pos_of_int i)
let rec int_of_pos = function XH -> 1 | XO p -> 2 * int_of_pos p | XI p -> 2 * int_of_pos p + 1
let int_of_n = function N0 -> 0 | Npos p -> int_of_pos p
let rec int_of_nat = function O -> 0 | S n -> 1 + int_of_nat n
let ni s = n_of_int (int_of_string s)
let si n = string_of_int (int_of_n n)

let pat_of_tok t =
  match String.index_opt t ':' with
  | None -> failwith ("bad pattern " ^ t)
  | Some k ->
      let ty = String.sub t 0 k and rest = String.sub t (k + 1) (String.length t - k - 1) in
      let fields = if rest = "" then [] else String.split_on_char ',' rest in
      (ni ty, List.map (fun f -> if f = "_" then None else Some (ni f)) fields)

let tok_of_pat (ty, fs) =
  si ty ^ ":" ^ String.concat "," (List.map (function None -> "_" | Some v -> si v) fs)

let pats_of_tok t = if t = "" then [] else List.map pat_of_tok (String.split_on_char '|' t)
let show_pats ps = if ps = [] then "-" else String.concat " " (List.map tok_of_pat ps)
let ids l = String.concat "," (List.map si l)

let ev_of_tok t =
  if t = "S" then ESettle else
  match String.index_opt t '=' with
  | None -> failwith ("bad event " ^ t)
  | Some k ->
      let kind = String.sub t 0 k and arg = String.sub t (k + 1) (String.length t - k - 1) in
      (match kind with
       | "W" -> ERegWaiter (pats_of_tok arg)
       | "C" -> ERegCallback (pats_of_tok arg)
       | "X" -> ECancel (ni arg)
       | "R" -> EReceive (pat_of_tok arg)
       | _ -> failwith ("bad event " ^ t))

let show_obs = function
  | ORegistered id -> "reg:" ^ si id
  | ORegError -> "regerr"
  | OCancelled b -> "cancel:" ^ (if b then "1" else "0")
  | OReceived (r, c, m) -> "recv:" ^ ids r ^ "/" ^ ids c ^ "/" ^ (if m then "1" else "0")
  | OSettled -> "settled"

let show_fut (id, f) =
  si id ^ "=" ^ (match f with FPending -> "P" | FCancelled -> "X" | FDone c -> "D(" ^ tok_of_pat c ^ ")")

let handle toks =
  match toks with
  | ["match"; p; q] -> if pmatches (pat_of_tok p) (pat_of_tok q) then "1" else "0"
  | "dedup" :: ps -> show_pats (dedup (List.map pat_of_tok ps))
  | "headers" :: ps -> ids (headers (List.map pat_of_tok ps))
  | "resolve" :: c :: ps ->
      (match mk_patterns (List.map pat_of_tok ps) with
       | None -> "E"
       | Some lps -> string_of_int (int_of_nat (resolve_count lps (pat_of_tok c))))
  | "hist" :: evs ->
      let (s, os) = run init (List.map ev_of_tok evs) in
      String.concat " ; " (List.map show_obs os) ^ " // " ^ String.concat " " (List.map show_fut s.st_futs) ^
      " // table=" ^ ids (List.map (fun l -> l.l_id) s.st_table)
  | "oldest" :: c :: evs ->
      let s = exec init (List.map ev_of_tok evs) in
      (match oldest_eligible s (pat_of_tok c) with None -> "-" | Some l -> si l.l_id) ^ " / " ^
      ids (List.map (fun l -> l.l_id) (List.filter (cb_due (pat_of_tok c)) s.st_regs))
  | _ -> "ERROR unknown command: " ^ String.concat " " toks

let () =
  try
    while true do
      let line = input_line stdin in
      let toks = List.filter (fun s -> s <> "") (String.split_on_char ' ' line) in
      let out = try handle toks with e -> "ERROR " ^ Printexc.to_string e in
      print_string out; print_newline ()
    done
  with End_of_file -> ()
