let handle toks = "ERROR unknown command: " ^ String.concat " " toks
