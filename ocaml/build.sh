#!/bin/sh
# build a model driver from extracted code:  build.sh [suffix]
#   ocaml/gen/model<suffix>.ml (written by coq/Extract*.v) + ocaml/driver<suffix>.ml -> ocaml/model_driver<suffix>
set -e
cd "$(dirname "$0")"
S="$1"
B="_build$S"
mkdir -p "$B"
cp "gen/model$S.ml" "gen/model$S.mli" "driver$S.ml" "$B/"
cd "$B"
ocamlfind ocamlopt -O2 -w -a -o "../model_driver$S" "model$S.mli" "model$S.ml" "driver$S.ml" 2>/dev/null || \
ocamlfind ocamlopt -w -a -o "../model_driver$S" "model$S.mli" "model$S.ml" "driver$S.ml"
