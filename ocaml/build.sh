#!/bin/sh
# build the model driver from the extracted code (ocaml/gen/model.ml written by coq/Extract.v)
set -e
cd "$(dirname "$0")"
mkdir -p _build
cp gen/model.ml gen/model.mli driver_ext.ml driver.ml _build/
cd _build
ocamlfind ocamlopt -O2 -w -a -o ../model_driver model.mli model.ml driver_ext.ml driver.ml 2>/dev/null || \
ocamlfind ocamlopt -w -a -o ../model_driver model.mli model.ml driver_ext.ml driver.ml
