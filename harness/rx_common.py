"""Stream generators and the differential runner for the receive path (C01, C02, C06, C08-rx)."""
import json

from common import hexs, BuildBroken
from impl_link import run_rx, build_frame_bytes, ref_crc8, ref_crc16


# --------------------------------------------------------------------------- generators
def rand_bytes(rng, n):
    return bytes(rng.randrange(256) for _ in range(n))


def noise(rng, n):
    """Noise with embedded start-marker material."""
    out = bytearray()
    while len(out) < n:
        r = rng.random()
        if r < 0.12:
            out += b"\xde"
        elif r < 0.2:
            out += b"\xde\xad"
        elif r < 0.25:
            out += b"\xad"
        elif r < 0.3:
            out += b"\xde\xde\xad"
        else:
            out.append(rng.randrange(256))
    return bytes(out[:n])


def valid_frame(rng, kind=None, seq=None, maxlen=60):
    kind = kind or rng.choice(["whole", "whole", "whole", "first", "middle", "last", "ack", "ack"])
    seq = rng.randrange(4) if seq is None else seq
    if kind == "ack":
        fl = 1 | (seq << 4) | (2 if rng.random() < 0.2 else 0) | (rng.choice([0, 0, 0x0C, 0x40, 0x80]) if rng.random() < 0.1 else 0)
        return build_frame_bytes(None, b"", fl)
    fl = {"whole": 0xC0, "first": 0x40, "middle": 0, "last": 0x80}[kind] | (seq << 2)
    if rng.random() < 0.15:
        fl |= 2  # retransmit
    if rng.random() < 0.05:
        fl |= rng.randrange(4) << 4
    ln = rng.choice([0, 0, 1, 2, 5, 8]) if rng.random() < 0.4 else rng.randrange(0, maxlen)
    if rng.random() < 0.06:
        # large frames: the receiver puts no upper bound on the length field (a body above the 247 bytes the host's own
        # transmitter uses, and lengths that need more than 12 bits)
        ln = rng.choice([243, 244, 247, 248, 249, 300, 700, 4084, 4085, 4089, 5000])
    data = noise(rng, ln) if rng.random() < 0.3 else rand_bytes(rng, ln)
    hdr = rng.randrange(1 << 32) if fl & 0x40 else None
    return build_frame_bytes(hdr, data, fl)


def weird_header(rng, size=None, flags=None, good_crc8=True, ftype=6):
    """Checksum-valid (or not) 7-byte header with arbitrary size/flags, followed by nothing."""
    size = rng.randrange(0, 301) if size is None else size
    flags = rng.randrange(256) if flags is None else flags
    h4 = size.to_bytes(2, "little") + bytes([ftype, flags])
    c8 = ref_crc8(h4)
    if not good_crc8:
        c8 ^= rng.randrange(1, 256)
    return b"\xde\xad" + h4 + bytes([c8])


def short_body_frame(rng, flags=None, nbody=None):
    """Checksum-valid header whose body is too short for its kind but carries a VALID body checksum where
    one fits: a first fragment with 0..3 bytes after the CRC16 (no room for the 4-byte command header),
    bodies of 0 or 1 byte (no room for the CRC16), ACK headers with a length other than 5."""
    flags = rng.choice([0x40, 0xC0, 0x44, 0xC8, 0x00, 0x80, 0x01, 0x11]) if flags is None else flags
    nbody = rng.randrange(0, 7) if nbody is None else nbody
    if nbody >= 2:
        data = rand_bytes(rng, nbody - 2)
        body = ref_crc16(data).to_bytes(2, "little") + data
    else:
        body = rand_bytes(rng, nbody)
    size = 5 + len(body)
    h4 = size.to_bytes(2, "little") + bytes([6, flags])
    return b"\xde\xad" + h4 + bytes([ref_crc8(h4)]) + body


def nosig_header(rng, size=None, keep=None):
    """A frame whose start marker is damaged (so it is NOT a frame start) but whose length/type/flags/crc8 bytes are
    self-consistent, cut short of its announced extent: nothing after it may be held back waiting for that extent."""
    fr = bytearray(valid_frame(rng, kind=rng.choice(["whole", "first", "middle"]), maxlen=size or rng.choice([20, 120, 250])))
    if rng.random() < 0.6:
        i = rng.randrange(16)
        fr[i // 8] ^= 1 << (i % 8)
    else:
        fr[0], fr[1] = rng.choice([(0xDE, 0xDE), (0xAD, 0xDE), (0x00, 0xAD), (rng.randrange(256), rng.randrange(256))])
        if fr[0] == 0xDE and fr[1] == 0xAD:
            fr[1] = 0xAE
    keep = rng.randrange(7, max(8, len(fr) - 1)) if keep is None else keep
    return bytes(fr[:keep])


def corrupt(rng, fr):
    r = rng.random()
    b = bytearray(fr)
    if r < 0.35:
        i = rng.randrange(len(b) * 8)
        b[i // 8] ^= 1 << (i % 8)
        return bytes(b)
    if r < 0.55:
        return bytes(b[:rng.randrange(1, len(b))])     # truncated
    if r < 0.7:
        return bytes(b) + bytes(b)                     # duplicated
    if r < 0.85 and len(b) > 9:
        b[rng.randrange(9, len(b))] ^= rng.randrange(1, 256)   # body byte
        return bytes(b)
    b[4] = rng.choice([0, 5, 7, 0x86])                 # wrong type (crc8 now wrong as well)
    return bytes(b)


def gen_pieces(rng, npieces=None, focus=None):
    """A stream as a list of labelled pieces."""
    n = npieces or rng.randrange(1, 9)
    out = []
    for _ in range(n):
        r = rng.random()
        if focus == "weird" and r < 0.5:
            r = 0.9
        if r < 0.45:
            out.append(("valid", valid_frame(rng)))
        elif r < 0.6:
            out.append(("noise", noise(rng, rng.randrange(1, 25))))
        elif r < 0.75:
            out.append(("corrupt", corrupt(rng, valid_frame(rng))))
        elif r < 0.80:
            out.append(("badcrc8-long", weird_header(rng, size=rng.choice([300, 5000, 0x7FFF, 0xFFFF]), flags=0xC0, good_crc8=False)))
        elif r < 0.84:
            out.append(("short-body-valid-crc", short_body_frame(rng)) if rng.random() < 0.6 else ("damaged-marker-truncated", nosig_header(rng)))
        elif r < 0.93:
            sz = rng.randrange(0, 14) if rng.random() < 0.7 else rng.randrange(0, 301)
            tail = rand_bytes(rng, rng.randrange(0, 16))
            out.append(("weird-header", weird_header(rng, size=sz, ftype=6 if rng.random() < 0.85 else rng.randrange(256)) + tail))
        else:
            fr = valid_frame(rng, kind=rng.choice(["whole", "first"]), maxlen=30)
            out.append(("valid+markerpayload", fr))
    return out


def chunkings(rng, total, thorough):
    yield "whole", []
    if total <= 400:
        yield "bytewise", list(range(1, total))
    k = rng.randrange(1, 6)
    yield "random", sorted(set(rng.randrange(1, max(2, total)) for _ in range(k))) if total > 1 else []
    if thorough and total <= 160:
        for c in range(1, total):
            yield "cut@%d" % c, [c]
    elif total > 1:
        for _ in range(2):
            yield "cut1", [rng.randrange(1, total)]


def split(stream, cuts):
    cuts = [c for c in cuts if 0 < c < len(stream)]
    pts = [0] + cuts + [len(stream)]
    return [stream[a:b] for a, b in zip(pts, pts[1:])]


# --------------------------------------------------------------------------- running
def strip_buf(s):
    i = s.rfind(" buf=")
    return s[:i], s[i + 5:]


def model_rx_line(chunks, pack_seq=0, ack_event="n", open_transport=True, buf=b""):
    return "rx %d %s %d %s %s" % (pack_seq, ack_event, 1 if open_transport else 0, hexs(buf),
                                  " ".join(hexs(c) for c in chunks))


class RxCase:
    def __init__(self, pieces, cuts, pack_seq=0, ack_event="n", open_transport=True, buf=b"", raise_at=()):
        self.pieces, self.cuts = pieces, cuts
        self.pack_seq, self.ack_event, self.open, self.buf = pack_seq, ack_event, open_transport, buf
        self.raise_at = tuple(raise_at)

    @property
    def stream(self):
        return b"".join(p for _, p in self.pieces)

    def chunks(self):
        return split(self.stream, self.cuts)

    def impl(self):
        ra = set(self.raise_at)
        out, _ = run_rx(self.chunks(), self.pack_seq, self.ack_event, self.open, self.buf,
                        raise_on=(lambda k: k in ra) if ra else None)
        return out

    def model_line(self):
        return model_rx_line(self.chunks(), self.pack_seq, self.ack_event, self.open, self.buf)

    def to_json(self):
        return {"pieces": [[l, hexs(p)] for l, p in self.pieces], "cuts": list(self.cuts), "pack_seq": self.pack_seq,
                "ack_event": self.ack_event, "open": self.open, "buf": hexs(self.buf), "raise_at": list(self.raise_at),
                "chunks": [hexs(c) for c in self.chunks()]}

    @staticmethod
    def from_json(j):
        unh = lambda s: b"" if s == "-" else bytes.fromhex(s)
        return RxCase([(l, unh(p)) for l, p in j["pieces"]], j["cuts"], j["pack_seq"], j["ack_event"], j["open"],
                      unh(j["buf"]), j.get("raise_at", ()))

    def clone(self, **kw):
        c = RxCase(list(self.pieces), list(self.cuts), self.pack_seq, self.ack_event, self.open, self.buf, self.raise_at)
        for k, v in kw.items():
            setattr(c, k, v)
        return c


def disagree(model, case):
    i = strip_buf(case.impl())[0]
    m = strip_buf(model.batch([case.model_line()])[0])[0]
    return i != m


def shrink(model, case, fails, budget=150):
    """Greedy delta debugging on pieces and cuts."""
    cur = case
    steps = 0
    changed = True
    while changed and steps < budget:
        changed = False
        for i in range(len(cur.pieces)):
            if len(cur.pieces) <= 1:
                break
            cand = cur.clone(pieces=cur.pieces[:i] + cur.pieces[i + 1:])
            total = len(cand.stream)
            cand.cuts = [c for c in cand.cuts if c < total]
            steps += 1
            try:
                if fails(cand):
                    cur, changed = cand, True
                    break
            except Exception:
                pass
        if changed:
            continue
        for i in range(len(cur.cuts)):
            cand = cur.clone(cuts=cur.cuts[:i] + cur.cuts[i + 1:])
            steps += 1
            try:
                if fails(cand):
                    cur, changed = cand, True
                    break
            except Exception:
                pass
        if changed:
            continue
        if cur.raise_at:
            cand = cur.clone(raise_at=())
            steps += 1
            if fails(cand):
                cur, changed = cand, True
    return cur


def monitor_case(model, case, impl_out=None):
    """The property, on the impl alone with the extracted spec: returns None or a description.
    - the receive entry point never raises;
    - data frames handed up, cumulatively after each chunk, = data frames of spec_parse(prefix)
      (exactness, order, chunk independence and promptness at once);
    - each delivery is immediately preceded by exactly one write = the spec ACK for its packet seq,
      and there are no other writes (transport open)."""
    impl_out = impl_out or case.impl()
    body, _ = strip_buf(impl_out)
    per_chunk = body.split(" // ")[0].split(" / ")
    if "RAISED" in body:
        return "data_received raised: " + body[body.find("RAISED"):][:120]
    chunks = case.chunks()
    prefixes = []
    acc = case.buf
    cum = []
    want_lines = []
    for c, o in zip(chunks, per_chunk):
        acc = acc + c
        items = [x for x in o.split(";") if x]
        cum = cum + items
        prefixes.append((acc, list(cum)))
    # check at most 6 prefixes + the last
    idxs = sorted(set([len(prefixes) - 1] + [int(k * (len(prefixes) - 1) / 5) for k in range(6)])) if prefixes else []
    outs = model.batch(["specparse %s" % hexs(prefixes[i][0]) for i in idxs])
    for i, o in zip(idxs, outs):
        frames = [x.split(":", 1)[1] for x in o.split(";") if x]
        data_frames = [f for f in frames if ",data," in f]
        items = prefixes[i][1]
        dels = [x[2:] for x in items if x.startswith("D:")]
        if dels != data_frames:
            return ("after %d of %d bytes the frames handed up differ from the well-formed frames of the stream: impl %d vs spec %d; "
                    "first difference: impl=%s spec=%s" % (len(prefixes[i][0]), len(case.buf) + len(case.stream), len(dels), len(data_frames),
                                                           next((a for a, b in zip(dels + ["<none>"], data_frames + ["<none>"]) if a != b), "?")[:80],
                                                           next((b for a, b in zip(dels + ["<none>"], data_frames + ["<none>"]) if a != b), "?")[:80]))
        # ACK discipline
        k = 0
        while k < len(items):
            it = items[k]
            if it.startswith("W:"):
                if not case.open:
                    return "write with no transport"
                if k + 1 >= len(items) or not items[k + 1].startswith("D:"):
                    return "a write that is not followed by the delivery of a frame: %s" % it[:40]
                fl = int(items[k + 1].split(",")[1])
                exp = "W:" + model.batch(["specack %d" % ((fl >> 2) & 3)])[0]
                if it != exp:
                    return "ACK written for flags %d is %s, expected %s" % (fl, it, exp)
                k += 2
                continue
            if it.startswith("D:"):
                if case.open:
                    return "frame handed up without an ACK written just before: %s" % it[:60]
            k += 1
    return None


def run_rx_campaign(chk, n_cases, focus=None, states=False, raising=False, directed=()):
    """Differential campaign; returns number of violations reported."""
    model = chk.model
    rng = chk.rng
    thorough = chk.tier == "thorough"
    cases = list(directed)
    for _ in range(n_cases):
        pieces = gen_pieces(rng, focus=focus)
        stream = b"".join(p for _, p in pieces)
        for name, cuts in chunkings(rng, len(stream), thorough):
            kw = {}
            if states and rng.random() < 0.6:
                kw = dict(pack_seq=rng.randrange(4), ack_event=rng.choice(["n", "0", "1"]), open_transport=rng.random() < 0.85)
            if raising and rng.random() < 0.5:
                kw["raise_at"] = tuple(sorted(set(rng.randrange(6) for _ in range(rng.randrange(1, 4)))))
            cases.append(RxCase(pieces, cuts, **kw))
            chk.count("chunking_" + name.split("@")[0])
        for l, _ in pieces:
            chk.count("piece_" + l)
    lines = [c.model_line() for c in cases]
    mouts = model.batch(lines)
    nviol = 0
    tie_bad = None
    mon_bad = None
    for c, mo in zip(cases, mouts):
        io = c.impl()
        n_del = io.count("D:")
        chk.note_case((c.stream, tuple(c.cuts), c.pack_seq, c.ack_event, c.open, c.raise_at), nontrivial=n_del > 0 or "A" in io)
        chk.count("cases_with_delivery" if n_del else "cases_without_delivery")
        if strip_buf(io)[0] != strip_buf(mo)[0]:
            if tie_bad is None:
                tie_bad = c
            if nviol < 3:
                small = shrink(model, c, lambda x: disagree(model, x))
                m = monitor_case(model, small)
                if m is None:
                    m2 = monitor_case(model, c)
                    if m2 is not None:
                        small, m = c, m2
                if m is not None:
                    if chk.violation(m, small.to_json(), key=None):
                        nviol += 1
                    mon_bad = mon_bad or m
                else:
                    chk.broken.append(BuildBroken("correspondence", "receive path differs from the model (property monitor finds no failing input)",
                                                  json.dumps({"case": small.to_json(), "impl": small.impl(), "model": model.batch([small.model_line()])[0]})))
        elif len(chk.samples) < 4 and n_del:
            chk.sample({"chunks": [hexs(x) for x in c.chunks()][:6], "impl": strip_buf(io)[0][:200]})
    # monitor on a sample of agreeing cases as well (the spec directly on impl behaviour)
    for c in cases[:: max(1, len(cases) // (400 if thorough else 120))]:
        m = monitor_case(model, c)
        chk.evaluations += 1
        if m is not None and mon_bad is None:
            mon_bad = m
            small = shrink(model, c, lambda x: monitor_case(model, x) is not None)
            if chk.violation(monitor_case(model, small) or m, small.to_json(), key=None):
                nviol += 1
    chk.oblige("tieB:data_received-vs-model(%d cases)" % len(cases), tie_bad is None,
               "" if tie_bad is None else json.dumps(tie_bad.to_json())[:300])
    chk.oblige("monitor:spec_parse+ack-discipline-on-impl", mon_bad is None, mon_bad or "")
    return nviol
