"""Running the implementation's link layer and canonicalising what it does."""
import warnings
warnings.simplefilter("ignore")
from unittest.mock import Mock
import access as X


def show_frame(fr):
    """Canonical text of a Frame object as handed to the API (same format as the model driver)."""
    ll = fr.ll_header
    if fr.hl_packet is None:
        return "F(%d,%d,%d,ack,-,-)" % (int(ll.size), int(ll.flags), int(ll.crc8))
    h = fr.hl_packet.header
    d = bytes(fr.hl_packet.data)
    return "F(%d,%d,%d,data,%s,%s)" % (int(ll.size), int(ll.flags), int(ll.crc8),
                                       "-" if h is None else str(int(h)), d.hex() if d else "-")


def exc_kind(e):
    n = type(e).__name__
    return n if n in ("ValueError", "KeyError", "InvalidFrame", "BufferTooShort", "AttributeError", "TypeError",
                      "IndexError", "AssertionError", "RuntimeError") else "other:" + n


class Wire:
    def __init__(self, log):
        self.log = log
        self.serial = Mock()
        self.serial.name = "fake"
        self.closed = False

    def write(self, b):
        self.log.append("W:" + (bytes(b).hex() or "-"))

    def close(self):
        self.closed = True


class FakeApi:
    def __init__(self, log, raise_on=None):
        self.log = log
        self.raise_on = raise_on or (lambda k: False)
        self.n = 0

    def frame_received(self, frame):
        self.log.append("D:" + show_frame(frame))
        k = self.n
        self.n += 1
        if self.raise_on(k):
            raise RuntimeError("handler failure injected by the harness")

    def connection_lost(self, exc):
        self.log.append("LOST")


def make_proto(log, raise_on=None, open_transport=True, pack_seq=0, ack_event="n", buf=b""):
    import asyncio
    import zigpy_zboss.config as conf
    from zigpy_zboss import uart as U
    cfg = conf.CONFIG_SCHEMA({conf.CONF_DEVICE: {conf.CONF_DEVICE_PATH: "/dev/null"}})
    api = FakeApi(log, raise_on)
    try:
        asyncio.get_event_loop_policy().get_event_loop()
    except Exception:
        asyncio.set_event_loop(asyncio.new_event_loop())
    proto = U.ZbossNcpProtocol(cfg[conf.CONF_DEVICE], api)
    if open_transport:
        X.pset(proto, "transport", Wire(log))
    X.pset(proto, "pack_seq", pack_seq)
    if ack_event != "n":
        ev = asyncio.Event()
        if ack_event == "1":
            ev.set()
        orig = ev.set

        def set_():
            log.append("A")
            orig()
        ev.set = set_
        X.pset(proto, "ack_event", ev)
    b_ = X.pget(proto, "buffer")
    b_ += buf
    return proto, api


def run_rx(chunks, pack_seq=0, ack_event="n", open_transport=True, buf=b"", raise_on=None):
    """Feed chunks to a fresh ZbossNcpProtocol; returns the text in the model driver's `rx` format."""
    log = []
    proto, api = make_proto(log, raise_on, open_transport, pack_seq, ack_event, buf)
    parts = []
    for c in chunks:
        del log[:]
        raised = ""
        try:
            proto.data_received(bytes(c))
        except Exception as e:  # noqa
            raised = "RAISED;"
            parts.append(raised + ";".join(log) + "<" + exc_kind(e) + ">")
            continue
        parts.append(";".join(log))
    ev = X.pget(proto, "ack_event")
    evs = "n" if ev is None else ("1" if ev.is_set() else "0")
    return " / ".join(parts) + " // seq=%d ev=%s buf=%s" % (X.pget(proto, "pack_seq"), evs, bytes(X.pget(proto, "buffer")).hex() or "-"), proto


def ref_crc8(data):
    """CRC-8/KOOP, bit by bit (poly 0x4D reflected = 0xB2, init 0xFF, xorout 0xFF): independent of the library's table."""
    c = 0xFF
    for b in bytes(data):
        c ^= b
        for _ in range(8):
            c = (c >> 1) ^ 0xB2 if c & 1 else c >> 1
    return c ^ 0xFF


def ref_crc16(data):
    """CRC-16/KERMIT, bit by bit (poly 0x1021 reflected = 0x8408, init 0, xorout 0)."""
    c = 0
    for b in bytes(data):
        c ^= b
        for _ in range(8):
            c = (c >> 1) ^ 0x8408 if c & 1 else c >> 1
    return c


assert ref_crc8(b"123456789") == 0xD8 and ref_crc16(b"123456789") == 0x2189


def build_frame_bytes(header, data, flags, good=True, crc8=None, size=None, ftype=6, crc16=None):
    """Independent construction of frame bytes (neither the library's serializer nor its checksum tables)."""
    body = b""
    if not (flags & 1):
        payload = (int(header).to_bytes(4, "little") if header is not None else b"") + bytes(data)
        c = ref_crc16(payload) if crc16 is None else crc16
        body = c.to_bytes(2, "little") + payload
    sz = (5 + len(body)) if size is None else size
    hdr4 = sz.to_bytes(2, "little") + bytes([ftype, flags])
    c8 = ref_crc8(hdr4) if crc8 is None else crc8
    return b"\xde\xad" + hdr4 + bytes([c8]) + body


def stamp_all(frames, seq, force_blackbox=False):
    """The bytes uart.send() writes for each frame while the numbering state is `seq` (none of them acknowledged).
    Fast path: the protocol's two stamping helpers, when it has them under their usual names; otherwise black box:
    a real ZbossNcpProtocol under the virtual-time loop, brought to state `seq` by acknowledged dummy sends, every frame
    sent and left to expire."""
    log = []
    proto, _ = make_proto(log, pack_seq=seq)
    st = None if force_blackbox else X.stampers(proto)
    if st is not None:
        return [bytes(st[1](st[0](f)).serialize()) for f in frames]
    import asyncio
    import zigpy_zboss.config as conf
    import zigpy_zboss.types as t
    from zigpy_zboss import uart as U
    from zigpy_zboss.frames import Frame, HLPacket, LLHeader
    from vloop import VLoop, Wire as VWire
    loop = VLoop()
    asyncio.set_event_loop(loop)
    try:
        cfg = conf.CONFIG_SCHEMA({conf.CONF_DEVICE: {conf.CONF_DEVICE_PATH: "/dev/null"}})

        class Api:
            def frame_received(self, f):
                pass

            def connection_lost(self, e):
                pass
        p = U.ZbossNcpProtocol(cfg[conf.CONF_DEVICE], Api())
        w = VWire()
        p.connection_made(w)
        cur = 0
        for _ in range(seq):                       # 0 -> 1 -> 2 -> 3
            hl = HLPacket(t.HLCommonHeader(0x00010000), t.Bytes(b""))
            ll = LLHeader().with_signature(Frame.signature).with_size(hl.length + 5).with_type(6).with_flags(0xC0)
            loop.create_task(p.send(Frame(ll, hl)))
            loop.settle()
            p.data_received(build_frame_bytes(None, b"", 1 | (cur << 4)))
            loop.settle()
            cur = cur % 3 + 1
        n0 = len(w.log)
        for f in frames:
            loop.create_task(p.send(f))
            loop.settle()
            loop.advance(U.ACK_TIMEOUT + 0.001)
        return [bytes(x) for x in w.log[n0:]]
    finally:
        asyncio.set_event_loop(None)
        loop.close()
