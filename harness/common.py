"""Shared machinery of the checks: build steps, model driver, evidence, verdicts."""
import fcntl
import hashlib
import json
import os
import random
import re
import subprocess
import sys
import time

VERIF = os.path.dirname(os.path.dirname(os.path.abspath(__file__)))
REPO = os.environ.get("VERIF_REPO", "/repo")
COQ = os.path.join(VERIF, "coq")
PY = "/venv/bin/python"
NPROC = os.cpu_count() or 4

LINT_RE = re.compile(
    r"\b(Admitted|admit|Axiom|Axioms|Parameter|Parameters|Conjecture|Conjectures|Unset\s+Guard|bypass_check|"
    r"Admit\s+Obligations|type-in-type|impredicative-set)\b|Unset\s+Universe\s+Checking|Unset\s+Positivity")


class BuildBroken(Exception):
    """A proof obligation or a tie stage no longer checks."""

    def __init__(self, stage, what, detail=""):
        super().__init__("%s: %s" % (stage, what))
        self.stage, self.what, self.detail = stage, what, detail


class Lock:
    def __init__(self, name="build"):
        self.path = os.path.join(VERIF, ".%s.lock" % name)

    def __enter__(self):
        self.f = open(self.path, "w")
        fcntl.flock(self.f, fcntl.LOCK_EX)
        return self

    def __exit__(self, *a):
        fcntl.flock(self.f, fcntl.LOCK_UN)
        self.f.close()


def sh(cmd, timeout=None, cwd=None, env=None):
    e = dict(os.environ)
    e.update({"PYTHONPATH": REPO, "PYTHONHASHSEED": "0", "VERIF_REPO": REPO})
    if env:
        e.update(env)
    p = subprocess.run(cmd, shell=isinstance(cmd, str), cwd=cwd, env=e, timeout=timeout,
                       stdout=subprocess.PIPE, stderr=subprocess.STDOUT, text=True)
    return p.returncode, p.stdout


# ---------------------------------------------------------------------------
# build steps
def run_pygen(stages=()):
    """Tie A: regenerate coq/gen from the working tree.  Returns the PYGEN-* lines."""
    stages = list(stages)
    if stages:
        # coq/gen is not tracked: in a fresh checkout (no setup run yet) the files of the stages this check does not
        # list are absent, and the extraction file imports all of them - generate what is missing as well
        for st, fn in (("tables", "GenCrcTables.v"), ("consts", "GenConsts.v"), ("bitfields", "GenBitfields.v"),
                       ("schemas", "GenSchemas.v"), ("enums", "GenEnums.v")):
            if st not in stages and not os.path.exists(os.path.join(COQ, "gen", fn)):
                stages.append(st)
    rc, out = sh([PY, os.path.join(VERIF, "tools", "pygen.py"), os.path.join(COQ, "gen")] + stages,
                 timeout=300)
    lines = [l for l in out.splitlines() if l.startswith("PYGEN-")]
    if rc != 0:
        fails = [l for l in lines if l.startswith("PYGEN-FAIL")]
        raise BuildBroken("translator", "; ".join(fails) or "pygen crashed", out[-3000:])
    return lines


def lint():
    bad = []
    for root, _, files in os.walk(COQ):
        if "/wip" in root or "/.cases" in root:
            continue
        for fn in files:
            if not fn.endswith(".v"):
                continue
            p = os.path.join(root, fn)
            depth = 0
            for i, line in enumerate(open(p, encoding="utf-8"), 1):
                code = re.sub(r"\(\*.*?\*\)", "", line)
                if LINT_RE.search(code):
                    bad.append("%s:%d: %s" % (os.path.relpath(p, COQ), i, line.strip()))
                if re.match(r"\s*Section\b", code):
                    depth += 1
                elif re.match(r"\s*End\b", code) and depth > 0:
                    depth -= 1
                elif depth == 0 and re.match(r"\s*(Variable|Variables|Hypothesis|Hypotheses|Context)\b", code):
                    bad.append("%s:%d: %s outside Section" % (os.path.relpath(p, COQ), i, line.strip()))
    if bad:
        raise BuildBroken("lint", "forbidden construct in the Coq development", "\n".join(bad))
    return True


def ensure_makefile():
    mf = os.path.join(COQ, "Makefile.coq")
    cp = os.path.join(COQ, "_CoqProject")
    vfiles = sorted(os.path.relpath(os.path.join(r, f), COQ)
                    for r, _, fs in os.walk(COQ) for f in fs
                    if f.endswith(".v") and "/wip" not in r and "/.cases" not in r)
    listing = os.path.join(COQ, ".vfiles")
    old = open(listing).read() if os.path.exists(listing) else ""
    new = "\n".join(vfiles)
    if new != old or not os.path.exists(mf):
        rc, out = sh("coq_makefile -f _CoqProject %s -o Makefile.coq" % " ".join(vfiles), cwd=COQ, timeout=120)
        if rc != 0:
            raise BuildBroken("build", "coq_makefile failed", out)
        try:
            os.remove(os.path.join(COQ, ".Makefile.coq.d"))
        except OSError:
            pass
        open(listing, "w").write(new)


def enclosing_theorem(vfile, line):
    try:
        lines = open(os.path.join(COQ, vfile)).read().splitlines()
    except OSError:
        return None
    for i in range(min(line, len(lines)) - 1, -1, -1):
        m = re.match(r"\s*(Theorem|Lemma|Corollary|Example|Definition|Fixpoint|Fact|Remark)\s+([A-Za-z0-9_']+)", lines[i])
        if m:
            return m.group(2)
    return None


def make(target, timeout=1500):
    """Full .vo build of target's dependency cone (never -vos/-vok)."""
    ensure_makefile()
    os.makedirs(os.path.join(VERIF, "ocaml", "gen"), exist_ok=True)     # Extract*.v write there
    rc, out = sh("timeout %d make -f Makefile.coq -j%d %s" % (timeout, NPROC, target), cwd=COQ, timeout=timeout + 30)
    if rc != 0:
        m = re.search(r'File "\./([^"]+)", line (\d+)', out)
        thm = None
        where = "?"
        if m:
            thm = enclosing_theorem(m.group(1), int(m.group(2)))
            where = "%s:%s" % (m.group(1), m.group(2))
        raise BuildBroken("proof", "coqc failed at %s (in %s)" % (where, thm or "?"), out[-4000:])
    return out


def props_assumptions(pid):
    """Recompile props/Props_<pid>.v on its own and collect theorem names + Print Assumptions output."""
    vf = "props/Props_%s.v" % pid
    rc, out = sh("timeout 600 coqc -Q . ZB -w -notation-overridden,-deprecated-hint-without-locality,"
                 "-deprecated-instance-without-locality %s" % vf, cwd=COQ, timeout=630)
    if rc != 0:
        m = re.search(r'File "\./([^"]+)", line (\d+)', out)
        thm = enclosing_theorem(m.group(1), int(m.group(2))) if m else None
        raise BuildBroken("proof", "props file failed (in %s)" % (thm or "?"), out[-4000:])
    src = open(os.path.join(COQ, vf)).read()
    src_nc = re.sub(r"\(\*.*?\*\)", "", src, flags=re.S)
    theorems = re.findall(r"^\s*Theorem\s+([A-Za-z0-9_']+)", src_nc, flags=re.M)
    printed = re.findall(r"Print Assumptions\s+([A-Za-z0-9_']+)", src_nc)
    missing = [t for t in theorems if t not in printed]
    if missing:
        raise BuildBroken("lint", "theorems without Print Assumptions: %s" % missing)
    # split output into blocks, one per Print Assumptions
    blocks = []
    cur = None
    for l in out.splitlines():
        if l.startswith("Closed under the global context"):
            blocks.append(["Closed under the global context"])
            cur = None
        elif l.startswith("Axioms:"):
            cur = ["Axioms:"]
            blocks.append(cur)
        elif cur is not None and l.strip():
            cur.append(l.strip())
    ass = {}
    for t, b in zip(printed, blocks):
        ass[t] = " ".join(b)
    if len(blocks) != len(printed):
        raise BuildBroken("lint", "could not parse Print Assumptions output", out[-2000:])
    return theorems, ass


def build_driver(engine=""):
    """Extract<Engine>.v -> ocaml/gen/model<_engine>.ml -> ocaml/model_driver<_engine>.
    The default engine ("") is the main development; other engines keep independently developed
    sub-models (own Extract file, own driver) apart so that they never conflict."""
    suf = ("_" + engine) if engine else ""
    ext = "Extract%s.vo" % (engine.capitalize() if engine else "")
    os.makedirs(os.path.join(VERIF, "ocaml", "gen"), exist_ok=True)     # not tracked: absent in a fresh checkout
    rc, out = sh("timeout 600 make -f Makefile.coq %s" % ext, cwd=COQ, timeout=630)
    if rc != 0:
        raise BuildBroken("extraction", "%s failed" % ext, out[-3000:])
    gen = os.path.join(VERIF, "ocaml", "gen", "model%s.ml" % suf)
    drv = os.path.join(VERIF, "ocaml", "model_driver%s" % suf)
    srcs = [gen, os.path.join(VERIF, "ocaml", "driver%s.ml" % suf)]
    if (not os.path.exists(drv)) or any(os.path.getmtime(s) > os.path.getmtime(drv) for s in srcs):
        rc, out = sh([os.path.join(VERIF, "ocaml", "build.sh"), suf], timeout=300)
        if rc != 0:
            raise BuildBroken("extraction", "ocaml build failed", out[-3000:])
    return drv


def coqchk(pid, timeout=3000):
    """Thorough tier: re-check the property file and everything it depends on with the independent checker
    (coqchk -o) and report the axioms of the whole loaded context. Cached on the digest of Props_<pid>.vo
    (a .vo embeds the digests of its dependencies, so any change below it changes the key)."""
    vo = os.path.join(COQ, "props", "Props_%s.vo" % pid)
    key = hashlib.sha256(open(vo, "rb").read()).hexdigest()
    d = os.path.join(COQ, ".coqchk")
    os.makedirs(d, exist_ok=True)
    cp = os.path.join(d, pid + ".json")
    try:
        c = json.load(open(cp))
        if c.get("key") == key:
            c["cached"] = True
            return c
    except (OSError, ValueError):
        pass
    def one_run(pids):
        t0 = time.time()
        mods = " ".join("ZB.props.Props_%s" % q for q in pids)
        rc, out = sh("timeout %d coqchk -silent -o -Q . ZB %s" % (timeout, mods), cwd=COQ, timeout=timeout + 30)
        ok = rc == 0 and "CONTEXT SUMMARY" in out
        m = re.search(r"CONTEXT SUMMARY\n=+\n(.*)", out, flags=re.S)
        summary = m.group(1) if m else out[-2000:]
        sect = {}
        for name, body in re.findall(r"\* ([^:\n]+):(.*?)(?=\n\* |\Z)", summary, flags=re.S):
            sect[name.strip()] = " ".join(body.split())
        res = {"ok": ok, "rc": rc, "summary": sect, "seconds": round(time.time() - t0, 1), "cached": False, "checked_together": list(pids)}
        if not ok:
            res["tail"] = out[-2000:]
        return res

    # one coqchk run costs the same for one property file as for all of them (the shared libraries dominate): try to
    # check every property file that is built and up to date in the same run, and cache each under its own digest
    sh("timeout 1500 make -f Makefile.coq -k -j%d all" % NPROC, cwd=COQ, timeout=1530)
    allp = sorted(fn[6:-3] for fn in os.listdir(os.path.join(COQ, "props")) if re.fullmatch(r"Props_C\d\d\.vo", fn))
    keys = {q: hashlib.sha256(open(os.path.join(COQ, "props", "Props_%s.vo" % q), "rb").read()).hexdigest() for q in allp}
    key = keys.get(pid, key)
    res = one_run(allp) if len(allp) > 1 and pid in allp else {"ok": False}
    if res["ok"]:
        for q in allp:
            with open(os.path.join(d, q + ".json"), "w") as f:
                json.dump(dict(res, key=keys[q]), f)
        return dict(res, key=key)
    res = one_run([pid])
    res["key"] = key
    if res["ok"]:
        with open(cp, "w") as f:
            json.dump(res, f)
    return res


class Model:
    """Batch interface to the extracted model: send all lines, get all answers."""

    def __init__(self, engine=""):
        self.path = os.path.join(VERIF, "ocaml", "model_driver" + (("_" + engine) if engine else ""))

    def batch(self, lines, shards=None):
        lines = list(lines)
        if not lines:
            return []
        shards = shards or (NPROC if len(lines) > 20000 else 1)
        if shards == 1:
            return self._one(lines)
        size = (len(lines) + shards - 1) // shards
        procs = []
        for i in range(0, len(lines), size):
            p = subprocess.Popen([self.path], stdin=subprocess.PIPE, stdout=subprocess.PIPE, text=True)
            procs.append((p, lines[i:i + size]))
        import threading
        outs = [None] * len(procs)

        def work(k):
            p, ls = procs[k]
            o, _ = p.communicate("\n".join(ls) + "\n")
            outs[k] = o.splitlines()
        ths = [threading.Thread(target=work, args=(k,)) for k in range(len(procs))]
        [t.start() for t in ths]
        [t.join() for t in ths]
        res = [x for o in outs for x in o]
        if len(res) != len(lines):
            raise BuildBroken("extraction", "model driver returned %d lines for %d cases" % (len(res), len(lines)))
        return res

    def _one(self, lines):
        p = subprocess.run([self.path], input="\n".join(lines) + "\n", stdout=subprocess.PIPE, text=True)
        res = p.stdout.splitlines()
        if len(res) != len(lines):
            raise BuildBroken("extraction", "model driver returned %d lines for %d cases" % (len(res), len(lines)))
        return res


def coq_eval(pid, defs_and_terms, timeout=300):
    """Cross-check of the extraction step: evaluate terms inside coqc with vm_compute.
    defs_and_terms: (preamble, [term strings]) -> list of printed results (one line each)."""
    preamble, terms = defs_and_terms
    d = os.path.join(COQ, ".cases")
    os.makedirs(d, exist_ok=True)
    path = os.path.join(d, "Cases_%s_%d.v" % (pid, os.getpid()))
    with open(path, "w") as f:
        f.write(preamble + "\n")
        for t in terms:
            f.write("Eval vm_compute in (%s).\n" % t)
    rc, out = sh("timeout %d coqc -Q . ZB %s" % (timeout, os.path.relpath(path, COQ)), cwd=COQ, timeout=timeout + 30)
    for ext in (".v", ".vo", ".glob", ".vok", ".vos"):
        try:
            os.remove(path[:-2] + ext)
        except OSError:
            pass
    try:
        os.remove(os.path.join(d, ".Cases_%s_%d.aux" % (pid, os.getpid())))
    except OSError:
        pass
    if rc != 0:
        raise BuildBroken("extraction", "in-kernel evaluation failed", out[-2000:])
    # each result: "     = value\n     : type"
    res = re.findall(r"=\s*(.*?)\n\s*:\s", out, flags=re.S)
    return [re.sub(r"\s+", " ", r).strip() for r in res]


# ---------------------------------------------------------------------------
def hexs(b):
    return bytes(b).hex() if len(b) else "-"


def seed_for(pid, tier):
    base = int(os.environ.get("VERIF_SEED", "0") or 0)
    h = hashlib.sha256(("%d/%s/%s" % (base, pid, tier)).encode()).digest()
    return base, int.from_bytes(h[:8], "big")


# ---------------------------------------------------------------------------
class Check:
    """One run of one property's check: collects obligations, cases, violations; writes evidence."""

    def __init__(self, pid, tier):
        self.pid, self.tier = pid, tier
        self.t0 = time.time()
        self.base_seed, self.seed = seed_for(pid, tier)
        self.rng = random.Random(self.seed)
        self.obligations = []      # (name, ok, note)
        self.broken = []           # BuildBroken instances
        self.violations = []       # dict(kind, what, replay)
        self.known_hits = []
        self.evaluations = 0
        self.nontrivial = set()
        self.samples = []
        self.dist = {}
        self.trusted = []
        self.assumptions = []
        self.exhaustive = None
        self.rule = ""
        self.extra = {}
        self.known = load_known(pid)
        d = os.path.join(VERIF, "replays")
        if os.path.isdir(d) and not os.environ.get("VERIF_KEEP_REPLAYS"):
            for fn in os.listdir(d):
                if fn.startswith(pid + "-"):
                    try:
                        os.remove(os.path.join(d, fn))
                    except OSError:
                        pass

    # -- obligations
    def oblige(self, name, ok, note=""):
        self.obligations.append((name, bool(ok), note))

    def count(self, key, n=1):
        self.dist[key] = self.dist.get(key, 0) + n

    def sample(self, s, limit=6):
        if len(self.samples) < limit:
            self.samples.append(s)

    def note_case(self, canon, nontrivial=True):
        self.evaluations += 1
        if nontrivial:
            self.nontrivial.add(hashlib.sha1(repr(canon).encode()).hexdigest()[:16])

    # -- standard build pipeline: Tie A, lint, proofs, extraction
    def build(self, stages=(), engine=""):
        with Lock():
            try:
                for l in run_pygen(stages):
                    self.oblige("tieA:" + l.split()[1], True, l)
            except BuildBroken as b:
                self.broken.append(b)
                self.oblige("tieA:translator", False, str(b))
            try:
                lint()
                self.oblige("lint", True)
            except BuildBroken as b:
                self.broken.append(b)
                self.oblige("lint", False, b.detail[:500])
            theorems = []
            try:
                make("props/Props_%s.vo" % self.pid)
                theorems, ass = props_assumptions(self.pid)
                for t in theorems:
                    self.oblige("theorem:" + t, True, ass.get(t, ""))
                    self.trusted.append("Print Assumptions %s: %s" % (t, ass.get(t, "?")))
                if self.tier == "thorough" and not os.environ.get("VERIF_NO_COQCHK"):
                    r = coqchk(self.pid)
                    s = r.get("summary", {})
                    bad = [k for k in ("Constants/Inductives relying on type-in-type",
                                       "Constants/Inductives relying on unsafe (co)fixpoints",
                                       "Inductives whose positivity is assumed") if s.get(k, "<none>") != "<none>"]
                    own = "ZB." in s.get("Axioms", "")
                    if not r["ok"] or bad or own:
                        raise BuildBroken("proof", "coqchk rejected Props_%s or found unsafe/own axioms" % self.pid,
                                          json.dumps(r)[:3000])
                    self.oblige("coqchk", True, "axioms of the whole loaded context: %s (%.0fs%s)"
                                % (s.get("Axioms", "?"), r["seconds"], ", cached" if r.get("cached") else ""))
                    self.trusted.append("coqchk -o ZB.props.Props_%s: Axioms: %s" % (self.pid, s.get("Axioms", "?")))
            except BuildBroken as b:
                self.broken.append(b)
                self.oblige("proofs:Props_%s" % self.pid, False, str(b))
            try:
                build_driver(engine)
                self.oblige("extraction+driver", True)
                self.model = Model(engine)
            except BuildBroken as b:
                self.broken.append(b)
                self.oblige("extraction+driver", False, str(b))
                self.model = None
        return not self.broken

    # -- violations
    def replay_path(self, payload):
        h = hashlib.sha1(json.dumps(payload, sort_keys=True, default=str).encode()).hexdigest()[:12]
        d = os.path.join(VERIF, "replays")
        os.makedirs(d, exist_ok=True)
        return os.path.join(d, "%s-%s.json" % (self.pid, h))

    def violation(self, what, case, key=None, kind="failing-input"):
        """Report a concrete failing input for the property (after the known-findings filter)."""
        for k in self.known:
            if k.get("status") == "known" and key is not None and k.get("key") == key:
                if key not in [h["key"] for h in self.known_hits]:
                    self.known_hits.append({"key": key, "what": k.get("what", what)})
                return False
        payload = {"property": self.pid, "kind": kind, "what": what, "key": key, "case": case,
                   "seed": self.base_seed, "tier": self.tier}
        path = self.replay_path(payload)
        with open(path, "w") as f:
            json.dump(payload, f, indent=1, default=str)
        self.violations.append({"what": what, "replay": path, "kind": kind})
        return True

    def finish(self, level="proof", checker_cmd=None, search_found=False):
        # proof / tie broken but no failing input in hand
        if self.broken and not any(v["kind"] == "failing-input" for v in self.violations):
            b = self.broken[0]
            payload = {"property": self.pid, "kind": "no-failing-input-found", "stage": b.stage, "what": b.what,
                       "detail": b.detail, "all_broken": [str(x) for x in self.broken],
                       "seed": self.base_seed, "tier": self.tier}
            path = self.replay_path(payload)
            with open(path, "w") as f:
                json.dump(payload, f, indent=1)
            self.violations.append({"what": str(b), "replay": path, "kind": "no-failing-input-found"})
        wall = time.time() - self.t0
        n_ob = len(self.obligations)
        n_ok = sum(1 for o in self.obligations if o[1])
        cov = {
            "obligations": n_ob, "discharged": n_ok,
            "checker_cmd": checker_cmd or ("cd /verif/coq && make -f Makefile.coq props/Props_%s.vo "
                                           "&& coqc -Q . ZB props/Props_%s.v   (coqc 8.16.1 kernel; "
                                           "thorough: coqchk -o)" % (self.pid, self.pid)),
            "trusted_base": self.trusted,
            "obligation_list": [{"name": n, "ok": ok, "note": note[:300]} for n, ok, note in self.obligations],
            "evaluations": self.evaluations, "distinct_nontrivial": len(self.nontrivial),
            "rule": self.rule, "samples": self.samples, "input_distribution": self.dist,
        }
        if self.exhaustive is not None:
            cov["exhaustive"] = self.exhaustive
        cov.update(self.extra)
        try:
            import access
            if access.discovered:
                cov["private_state_found_by_behaviour"] = dict(access.discovered)
            ta = sys.modules.get("typeaccess")
            if ta is not None and ta.used_behaviour:
                cov["private_class_attributes_found_by_behaviour"] = dict(ta.used_behaviour)
        except Exception:  # noqa
            pass
        ev = {"property_id": self.pid, "tier": self.tier, "seed": self.base_seed, "level": level,
              "coverage": cov, "assumptions": self.assumptions, "wall_s": round(wall, 2),
              "violations": len(self.violations),
              "known_findings_hit": self.known_hits}
        os.makedirs(os.path.join(VERIF, "evidence"), exist_ok=True)
        with open(os.path.join(VERIF, "evidence", "%s.json" % self.pid), "w") as f:
            json.dump(ev, f, indent=1, default=str)
        for h in self.known_hits:
            print("KNOWN-FINDING: property=%s %s" % (self.pid, h["what"]))
        for v in self.violations:
            tail = " no-failing-input-found" if v["kind"] == "no-failing-input-found" else ""
            print("VIOLATION property=%s replay=%s%s" % (self.pid, v["replay"], tail))
            print("  -> %s" % v["what"][:400])
        print("%s %s: obligations %d/%d, evaluations %d (distinct non-trivial %d), violations %d, %.1fs"
              % (self.pid, self.tier, n_ok, n_ob, self.evaluations, len(self.nontrivial), len(self.violations), wall))
        sys.stdout.flush()
        return 1 if self.violations else 0


def load_known(pid):
    p = os.path.join(VERIF, "known_findings.json")
    try:
        d = json.load(open(p))
    except OSError:
        return []
    return [k for k in d.get("findings", []) if k.get("property") == pid]


def corpus(pid):
    d = os.path.join(VERIF, "corpus", pid)
    out = []
    if os.path.isdir(d):
        for fn in sorted(os.listdir(d)):
            if fn.endswith(".json"):
                out.append(json.load(open(os.path.join(d, fn))))
    return out
