"""C06 - each accepted data frame is acknowledged once, with its own sequence number.

Proof: coq/Link/RxProofs.v (output log = per accepted data frame [ACK write; delivery]).
Tie B: mixed histories of data frames (every seq x flag kind, duplicates, retransmit), ACKs, corrupted
frames, handler raising; observation = ordered log of transport.write interleaved with frame_received."""
import rx_common as R
from impl_link import build_frame_bytes


def directed(rng):
    out = []
    for seq in range(4):
        for fl in (0xC0, 0x40, 0x00, 0x80, 0xC2, 0x02):
            hdr = 0x00050000 if fl & 0x40 else None
            fr = build_frame_bytes(hdr, b"\x01\x02\x03\x04", fl | (seq << 2))
            ack = build_frame_bytes(None, b"", 1 | (seq << 4))
            bad = bytearray(fr); bad[-1] ^= 1
            badh = bytearray(fr); badh[5] ^= 0x04
            wrongtype = bytearray(fr); wrongtype[4] = 7
            from zigpy_zboss.checksum import CRC8
            wrongtype[6] = int(CRC8(bytes(wrongtype[2:6])).digest())
            pieces = [("valid", fr), ("valid", fr), ("valid", ack), ("corrupt", bytes(bad)), ("corrupt", bytes(badh)),
                      ("corrupt", bytes(wrongtype)), ("valid", fr)]
            out.append(R.RxCase(pieces, []))
            out.append(R.RxCase(pieces, [5, 17, 30], raise_at=(0, 2)))
            out.append(R.RxCase(pieces, list(range(1, sum(len(p) for _, p in pieces)))))
    return out


def run(chk):
    chk.build(["consts", "tables"])
    chk.rule = ("directed: every packet seq x flag kind, duplicates, ACKs, body/header corruption, wrong type, handler raising, "
                "3 chunkings; plus random streams; non-trivial = at least one frame handed up; distinct by (stream, cuts, state)")
    if getattr(chk, "model", None) is None:
        return chk.finish()
    thorough = chk.tier == "thorough"
    R.run_rx_campaign(chk, 800 if thorough else 150, states=True, raising=True, directed=directed(chk.rng))
    chk.assumptions = ["transport.write is a sink; writes observed through a recording transport object"]
    return chk.finish()


def replay(path):
    from props import c01
    return c01.replay(path)
