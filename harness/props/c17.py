"""C17 - pattern matching is field-wise wildcarding; a listener fires once per match.

Proof: coq/Api/MatchProofs.v (model coq/Api/Match.v, engine "match").
Tie B (model vs the code in the tree, same inputs):
  * pattern.matches(other)            vs  pmatches         - every (pattern, target) pair of a small universe of two real
                                                             indication classes (3 parameters x 2 values + unbound), plus
                                                             random patterns / targets over every real Rsp/Ind class
  * deduplicate_commands(patterns)    vs  dedup            - every pattern list up to a length bound (exhaustive), sampled
                                                             longer ones, random lists (duplicates, chains, mixed types)
  * callback count through ZBOSS      vs  resolve_count    - register_indication_listeners(patterns, cb) on a real ZBOSS
                                                             object, every command of the universe delivered with
                                                             frame_received(cmd.to_frame())
Monitor (the property's rule evaluated directly on what the code returned, with an independent field-wise reference
that compares serialised parameter values): matches == reference; the patterns returned by deduplicate_commands match
exactly the targets matched by at least one given pattern; the callback fires once iff some given pattern matches,
never twice."""
import itertools
import json

from common import BuildBroken

EUIS = ["00:11:22:33:44:55:66:77", "aa:bb:cc:dd:ee:ff:00:01", "01:02:03:04:05:06:07:08"]


# ---------------------------------------------------------------------------------------------------------------
# shared with c12.py
class Enc:
    """Commands -> model tokens '<type id>:<v>,<v>,..'.  Values are interned per (type, parameter index) by their
    serialisation, so two values get the same number iff they serialise equally."""

    def __init__(self):
        self.tab = {}
        self.cache = {}

    def val(self, hdr, i, v):
        key = (hdr, i, bytes(v.serialize()))
        n = self.tab.get(key)
        if n is None:
            n = self.tab[key] = len(self.tab) + 1
        return n

    def tok(self, cmd):
        k = id(cmd)
        hit = self.cache.get(k)
        if hit is not None and hit[0] is cmd:
            return hit[1]
        hdr = int(cmd.header)
        fs = []
        for i, p in enumerate(cmd.schema):
            v = getattr(cmd, p.name)
            fs.append("_" if v is None else str(self.val(hdr, i, v)))
        s = "%d:%s" % (hdr, ",".join(fs))
        self.cache[k] = (cmd, s)
        return s


def ref_match(p, q):
    """The property's rule: same command class, and every parameter p specifies is specified equally by q."""
    if type(p) is not type(q):
        return False
    for prm in p.schema:
        pv = getattr(p, prm.name)
        if pv is None:
            continue
        qv = getattr(q, prm.name)
        if qv is None or bytes(pv.serialize()) != bytes(qv.serialize()):
            return False
    return True


def domain(ty):
    """A few distinct valid values of a parameter type (None when this harness cannot build one)."""
    import enum
    import zigpy_zboss.types as t
    try:
        if issubclass(ty, enum.Enum):
            vals = list(ty)[:3]
        elif issubclass(ty, int):
            vals = [ty(0), ty(1), ty(2)]
        elif issubclass(ty, t.EUI64):
            vals = [t.EUI64.convert(e) for e in EUIS]
        elif ty.__name__ == "KeyData":
            vals = [ty(list(range(16))), ty([0xFF] * 16)]
        elif issubclass(ty, bytes):
            vals = [ty(b""), ty(b"\x01\x02")]
        elif issubclass(ty, list):
            vals = [ty([])]
            try:
                one = ty([1])
                one.serialize()
                vals.append(one)
            except Exception:  # noqa
                pass
        else:
            return None
        out, seen = [], set()
        for v in vals:
            b = bytes(v.serialize())
            if b not in seen:
                seen.add(b)
                out.append(v)
        return out or None
    except Exception:
        return None


def describe(cmd):
    return {"cls": type(cmd).__qualname__, "header": int(cmd.header),
            "params": {p.name: (None if getattr(cmd, p.name) is None else bytes(getattr(cmd, p.name).serialize()).hex())
                       for p in cmd.schema},
            "text": str(cmd)}


def rebuild(d):
    import zigpy_zboss.commands as c
    cls = c.COMMANDS_BY_ID[[h for h in c.COMMANDS_BY_ID if int(h) == d["header"]][0]]
    kw = {}
    for p in cls.schema:
        hx = d["params"].get(p.name)
        if hx is not None:
            kw[p.name] = p.type.deserialize(bytes.fromhex(hx))[0]
    return cls(partial=True, **kw)


def rsp_ind_classes():
    import zigpy_zboss.commands as c
    return [cls for cls in c.COMMANDS_BY_ID.values() if not cls.__qualname__.endswith(".Req")]


def mk_api():
    import zigpy_zboss.config as conf
    from zigpy_zboss.api import ZBOSS
    cfg = conf.CONFIG_SCHEMA({conf.CONF_DEVICE: {conf.CONF_DEVICE_PATH: "/dev/null"}})
    return ZBOSS(cfg)


# ---------------------------------------------------------------------------------------------------------------
def small_universe():
    import zigpy_zboss.commands as c
    classes = [c.ZDO.DevAnnceInd.Ind, c.ZDO.DevUpdateInd.Ind]
    pats, cmds = [], []
    for cls in classes:
        names = [p.name for p in cls.schema]
        doms = [domain(p.type)[:2] for p in cls.schema]
        assert len(names) == 3 and all(len(d) == 2 for d in doms)
        for combo in itertools.product(*[[None] + d for d in doms]):
            pats.append(mk_pat(cls, {n: v for n, v in zip(names, combo) if v is not None}))
        for combo in itertools.product(*doms):
            cmds.append(cls(**dict(zip(names, combo))))
    return classes, pats, cmds


def n_spec(p):
    return sum(1 for prm in p.schema if getattr(p, prm.name) is not None)


class Ctx:
    def __init__(self, chk):
        self.chk = chk
        self.enc = Enc()
        self.bad = {}          # stream -> first (case, impl, model)
        self.mon = {}          # stream -> first (what, case)

    def tie(self, stream, case, impl, model):
        if impl != model and stream not in self.bad:
            self.bad[stream] = (case, impl, model)

    def monitor(self, stream, what, case, key):
        if stream not in self.mon:
            self.mon[stream] = (what, case)
            self.chk.violation(what, case, key=key)


def impl_dedup(ps):
    from zigpy_zboss.utils import deduplicate_commands
    try:
        return list(deduplicate_commands(ps)), None
    except Exception as e:  # noqa
        return None, "exc:%s" % type(e).__name__


def check_matches(ctx, pairs, bucket):
    """pairs: list of (p, q) command objects."""
    chk, enc = ctx.chk, ctx.enc
    outs = chk.model.batch(["match %s %s" % (enc.tok(p), enc.tok(q)) for p, q in pairs])
    for (p, q), mo in zip(pairs, outs):
        try:
            im = "1" if p.matches(q) else "0"
        except Exception as e:  # noqa
            im = "exc:%s" % type(e).__name__
        rf = "1" if ref_match(p, q) else "0"
        chk.note_case(("m", enc.tok(p), enc.tok(q)), nontrivial=type(p) is type(q) and n_spec(p) > 0)
        chk.count(bucket + (":match" if rf == "1" else ":nomatch"))
        case = {"stream": "matches", "pattern": describe(p), "target": describe(q), "impl": im, "reference": rf, "model": mo}
        ctx.tie("matches", case, im, mo)
        if im != rf:
            ctx.monitor("matches", "pattern.matches(target) returned %s where field-wise wildcarding gives %s: %s vs %s"
                        % (im, rf, p, q), case, key="C17:matches")


def masks_for(pats, targets):
    return [sum(1 << j for j, q in enumerate(targets) if ref_match(p, q)) for p in pats]


def dedup_monitor(out, inp_mask, idx_of, masks, targets):
    """None if the returned patterns match exactly the targets matched by some given pattern."""
    m = 0
    for x in out:
        i = idx_of.get(id(x))
        m |= masks[i] if i is not None else sum(1 << j for j, q in enumerate(targets) if ref_match(x, q))
    if m == inp_mask:
        return None
    lost = [j for j in range(len(targets)) if (inp_mask >> j) & 1 and not (m >> j) & 1]
    added = [j for j in range(len(targets)) if (m >> j) & 1 and not (inp_mask >> j) & 1]
    return lost, added


def check_dedup(ctx, pats, targets, masks, lists, bucket):
    """lists: iterable of index tuples into pats."""
    chk, enc = ctx.chk, ctx.enc
    toks = [enc.tok(p) for p in pats]
    idx_of = {id(p): i for i, p in enumerate(pats)}
    lists = list(lists)
    outs = chk.model.batch(["dedup " + " ".join(toks[i] for i in l) for l in lists])
    nt = 0
    for l, mo in zip(lists, outs):
        ps = [pats[i] for i in l]
        out, err = impl_dedup(ps)
        im = err if out is None else (" ".join(toks[idx_of[id(x)]] if id(x) in idx_of else enc.tok(x) for x in out) or "-")
        inp_mask = 0
        for i in l:
            inp_mask |= masks[i]
        folded = out is not None and len(out) < len(l)
        chk.note_case(("d",) + tuple(l) + (bucket,), nontrivial=len(l) >= 2)
        nt += folded
        if im != mo and "dedup" not in ctx.bad:
            ctx.tie("dedup", {"stream": "dedup", "patterns": [describe(p) for p in ps], "impl": im, "model": mo}, im, mo)
        res = ("raised", []) if out is None else dedup_monitor(out, inp_mask, idx_of, masks, targets)
        if res is not None and "dedup" not in ctx.mon:
            # shrink: drop patterns while the rule still fails
            cur = list(l)
            changed = True
            while changed and len(cur) > 1:
                changed = False
                for k in range(len(cur)):
                    cand = cur[:k] + cur[k + 1:]
                    o2, _ = impl_dedup([pats[i] for i in cand])
                    m2 = 0
                    for i in cand:
                        m2 |= masks[i]
                    if o2 is None or dedup_monitor(o2, m2, idx_of, masks, targets) is not None:
                        cur, changed = cand, True
                        break
            o2, e2 = impl_dedup([pats[i] for i in cur])
            m2 = 0
            for i in cur:
                m2 |= masks[i]
            r2 = ("raised", []) if o2 is None else dedup_monitor(o2, m2, idx_of, masks, targets)
            lost, added = r2
            what = ("deduplicate_commands raised %s" % e2) if o2 is None else (
                "deduplicate_commands changes what the collection matches: given %s -> kept %s; %s"
                % ([str(pats[i]) for i in cur], [str(x) for x in o2],
                   ("no longer matched: %s" % targets[lost[0]]) if lost else ("newly matched: %s" % targets[added[0]])))
            ctx.monitor("dedup", what,
                        {"stream": "dedup", "patterns": [describe(pats[i]) for i in cur],
                         "kept": None if o2 is None else [describe(x) for x in o2],
                         "lost": [describe(targets[j]) for j in (lost or [])[:3]] if o2 is not None else [],
                         "added": [describe(targets[j]) for j in (added or [])[:3]] if o2 is not None else []},
                        key="C17:dedup-loses-match" if (o2 is None or lost) else "C17:dedup-adds-match")
    chk.count(bucket + ":lists", len(lists))
    chk.count(bucket + ":lists-folded", nt)


def api_counts(ps, frames):
    """Callback invocations per delivered frame for a listener registered with ps on a fresh ZBOSS object."""
    api = mk_api()
    calls = []
    try:
        api.register_indication_listeners(ps, calls.append)
    except ValueError:
        return "E", calls
    except Exception as e:  # noqa
        return "exc:%s" % type(e).__name__, calls
    res = []
    for fr in frames:
        n0 = len(calls)
        try:
            api.frame_received(fr)
            res.append(len(calls) - n0)
        except Exception as e:  # noqa
            res.append("exc:%s" % type(e).__name__)
    return res, calls


def oneshot_counts(ps, frames, cmds):
    """Does a ONE-SHOT waiter registered with ps react (its future gets the command) to each frame - with an application
    callback for the same command types registered BEFORE it on the same ZBOSS object (a bystander that matches
    everything of those types and must not change what the waiter does)?  One fresh ZBOSS object per frame."""
    import asyncio
    loop = asyncio.new_event_loop()
    res = []
    try:
        for fr, cmd in zip(frames, cmds):
            api = mk_api()

            async def go(api=api, fr=fr, cmd=cmd):
                seen = []
                for p in ps:
                    if type(p) not in seen:
                        seen.append(type(p))
                api.register_indication_listeners([cls(partial=True) for cls in seen], lambda cmd: None)
                fut = api.wait_for_responses(ps)
                # ... and another bystander registered AFTER the waiter: it reacts to every command of those types, whatever
                # the waiter in front of it does
                after = []
                api.register_indication_listeners([cls(partial=True) for cls in seen], after.append)
                try:
                    api.frame_received(fr)
                except Exception as e:  # noqa
                    return "exc:%s" % type(e).__name__
                await asyncio.sleep(0)
                r = 1 if (fut.done() and not fut.cancelled()) else 0
                if len(after) != (1 if type(cmd) in seen else 0):
                    r = "bystander-after-waiter invoked %d time(s)" % len(after)
                if not fut.done():
                    fut.cancel()
                await asyncio.sleep(0)
                return r
            try:
                res.append(loop.run_until_complete(go()))
            except Exception as e:  # noqa
                res.append("exc:%s" % type(e).__name__)
    finally:
        loop.close()
    return res


def check_listener(ctx, pats, masks, cmds, cmd_targets, lists, bucket):
    """cmds: full commands (delivered as frames); cmd_targets[j] = index of cmds[j] in the mask bit order."""
    chk, enc = ctx.chk, ctx.enc
    frames = [q.to_frame() for q in cmds]
    ctoks = [enc.tok(q) for q in cmds]
    toks = [enc.tok(p) for p in pats]
    lists = list(lists)
    lines = []
    for l in lists:
        for ct in ctoks:
            lines.append("resolve %s %s" % (ct, " ".join(toks[i] for i in l)))
    outs = chk.model.batch(lines)
    k = 0
    for l in lists:
        ps = [pats[i] for i in l]
        res, calls = api_counts(ps, frames)
        inp_mask = 0
        for i in l:
            inp_mask |= masks[i]
        mouts = outs[k:k + len(cmds)]
        k += len(cmds)
        chk.note_case(("l",) + tuple(l) + (bucket,), nontrivial=len(l) >= 1)
        if res == "E" or isinstance(res, str):
            im = [res] * len(cmds)
        else:
            im = [str(x) for x in res]
        if im != mouts and "listener" not in ctx.bad:
            ctx.tie("listener", {"stream": "listener", "patterns": [describe(p) for p in ps], "impl": im, "model": mouts}, im, mouts)
        # the same collection as a one-shot waiter, behind a bystander callback (sampled: every third list, first 3 frames)
        if l and (k // max(1, len(cmds))) % 3 == 0 and "listener-oneshot" not in ctx.mon:
            sub = list(range(min(3, len(cmds))))
            oc = oneshot_counts(ps, [frames[j] for j in sub], [cmds[j] for j in sub])
            for j, got1 in zip(sub, oc):
                exp1 = 1 if (inp_mask >> cmd_targets[j]) & 1 else 0
                chk.evaluations += 1
                chk.count(bucket + ":oneshot-behind-callback")
                if got1 != exp1 and "listener-oneshot" not in ctx.mon:
                    ctx.monitor("listener-oneshot", "a one-shot waiter registered with %s (after an application callback for the same "
                                "command type) reacted %s time(s) to %s; %d expected" % ([str(p) for p in ps], got1, cmds[j], exp1),
                                {"stream": "listener", "patterns": [describe(p) for p in ps], "command": describe(cmds[j]),
                                 "reacted": got1, "expected": exp1}, key="C17:oneshot-behind-callback")
        for j, q in enumerate(cmds):
            if not l:
                break          # no patterns: the listener is refused (ValueError); nothing the property constrains
            exp = 1 if (inp_mask >> cmd_targets[j]) & 1 else 0
            got = im[j]
            chk.count(bucket + (":fires" if exp else ":silent"))
            if got != str(exp) and "listener" not in ctx.mon:
                cur = list(l)
                changed = True
                while changed and len(cur) > 1:
                    changed = False
                    for d in range(len(cur)):
                        cand = cur[:d] + cur[d + 1:]
                        r2, _ = api_counts([pats[i] for i in cand], [frames[j]])
                        e2 = 1 if any(ref_match(pats[i], q) for i in cand) else 0
                        if isinstance(r2, str) or r2[0] != e2:
                            cur, changed = cand, True
                            break
                r2, _ = api_counts([pats[i] for i in cur], [frames[j]])
                e2 = 1 if any(ref_match(pats[i], q) for i in cur) else 0
                g2 = r2 if isinstance(r2, str) else r2[0]
                ctx.monitor("listener", "a callback registered with %s was invoked %s time(s) for %s; %d expected (some given "
                            "pattern matches: %s)" % ([str(pats[i]) for i in cur], g2, q, e2, bool(e2)),
                            {"stream": "listener", "patterns": [describe(pats[i]) for i in cur], "command": describe(q),
                             "invocations": g2, "expected": e2}, key="C17:listener-count")
        # the callback argument is the received command
        for a in calls[:4]:
            if enc.tok(a) not in ctoks and "listener-arg" not in ctx.bad:
                ctx.tie("listener-arg", {"stream": "listener", "arg": describe(a)}, enc.tok(a), "one of the delivered commands")


# ---------------------------------------------------------------------------------------------------------------
READBACK_BAD = []      # (class, written kwargs, parameter, what the pattern reads back)


def mk_pat(cls, kw):
    """A partial command written with exactly the parameters kw; records it when the object does not hold what it was
    given (a pattern that silently drops a specified parameter matches commands that disagree with it on that parameter)."""
    p = cls(partial=True, **kw)
    for prm in cls.schema:
        got = getattr(p, prm.name)
        want = kw.get(prm.name)
        same = (got is None and want is None) or (got is not None and want is not None and
                                                  bytes(got.serialize()) == bytes(want.serialize()))
        if not same and len(READBACK_BAD) < 5:
            READBACK_BAD.append((cls, dict(kw), prm.name, got))
    return p


def random_pattern(rng, cls, doms, p_spec=0.5):
    kw = {}
    for prm, d in zip(cls.schema, doms):
        if d and rng.random() < p_spec:
            kw[prm.name] = rng.choice(d)
    return mk_pat(cls, kw)


def real_class_cases(ctx, n_lists):
    """Random patterns / lists / targets over every real Rsp/Ind class."""
    chk, rng = ctx.chk, ctx.chk.rng
    classes = rsp_ind_classes()
    full_ok, partial_only = [], []
    info = {}
    for cls in classes:
        doms = [domain(p.type) for p in cls.schema]
        info[cls] = doms
        if all(doms):
            # must survive its own frame round trip to be delivered through the API
            try:
                probe = cls(**{p.name: d[0] for p, d in zip(cls.schema, doms)})
                back = cls.from_frame(probe.to_frame())
                (full_ok if ref_match(probe, back) and ref_match(back, probe) else partial_only).append(cls)
            except Exception:
                partial_only.append(cls)
        elif any(doms):
            partial_only.append(cls)
    chk.extra["real_classes"] = {"rsp_ind_total": len(classes), "full_commands_through_api": len(full_ok),
                                 "patterns_only": len(partial_only)}
    per = max(1, n_lists // max(1, len(full_ok) + len(partial_only)))
    for cls in full_ok + partial_only:
        doms = info[cls]
        full = cls in full_ok
        others = [k for k in full_ok if k is not cls]
        pats = []
        # a chain general -> specific, duplicates, random patterns, a few of another class
        base = {p.name: rng.choice(d) for p, d in zip(cls.schema, doms) if d}
        names = list(base)
        rng.shuffle(names)
        for k in range(0, len(names) + 1):
            pats.append(mk_pat(cls, {n: base[n] for n in names[:k]}))
        for _ in range(6):
            pats.append(random_pattern(rng, cls, doms, rng.choice([0.2, 0.5, 0.8])))
        pats.append(mk_pat(cls, {n: base[n] for n in names[:1]}))     # equal but distinct object
        oth = rng.choice(others) if others else None
        if oth is not None:
            for _ in range(2):
                pats.append(random_pattern(rng, oth, info[oth], 0.4))
        if full:
            cmds = [cls(**base)] + [cls(**{p.name: rng.choice(d) for p, d in zip(cls.schema, doms)}) for _ in range(5)]
            if oth is not None:
                cmds.append(oth(**{p.name: rng.choice(d) for p, d in zip(oth.schema, info[oth])}))
            # the received form of an optional-parameter command: trailing optional parameters absent
            if any(p.optional for p in cls.schema):
                req = {p.name: rng.choice(d) for p, d in zip(cls.schema, doms) if not p.optional}
                cmds.append(cls(**req))
        else:
            cmds = []
        targets = cmds + pats
        masks = masks_for(pats, targets)
        check_matches(ctx, [(p, q) for p in pats for q in targets], "real")
        lists = []
        for _ in range(per):
            n = rng.randrange(1, 6)
            lists.append(tuple(rng.randrange(len(pats)) for _ in range(n)))
        lists.append(tuple(range(len(names) + 1)))                 # chain general -> specific
        lists.append(tuple(reversed(range(len(names) + 1))))       # chain specific -> general
        check_dedup(ctx, pats, targets, masks, lists, "real")
        if full:
            check_listener(ctx, pats, masks, cmds, list(range(len(cmds))), lists[: max(3, per // 3)] + lists[-2:], "real-api")


def run(chk):
    chk.build([], engine="match")
    rng = chk.rng
    thorough = chk.tier == "thorough"
    chk.rule = ("small universe = every partial command (3 parameters x {unbound, 2 values}) of ZDO.DevAnnceInd.Ind and "
                "ZDO.DevUpdateInd.Ind (54 patterns) against all 54 patterns + 16 full commands; pattern lists: all lists up to "
                "length %s over the 54 patterns, all lists of length %s within one class, sampled longer lists; real classes: "
                "chains general->specific, duplicates, random patterns of every Rsp/Ind class whose parameter types the "
                "harness can build. Non-trivial: same-class pair with a specified parameter / list of >= 2 patterns / a "
                "registered listener. Distinct by (patterns, target) tokens."
                % (("3", "4") if thorough else ("2", "3")))
    if getattr(chk, "model", None) is None:
        return chk.finish()
    ctx = Ctx(chk)
    classes, pats, cmds = small_universe()
    targets = cmds + pats
    masks = masks_for(pats, targets)
    # 1. matches, exhaustive over the universe
    check_matches(ctx, [(p, q) for p in pats for q in targets], "small")
    # 2. de-duplication
    n = len(pats)
    half = n // 2
    lists = [()]
    for L in range(1, (3 if thorough else 2) + 1):
        lists += list(itertools.product(range(n), repeat=L))
    check_dedup(ctx, pats, targets, masks, lists, "small-all")
    one_class = []
    for lo in (0, half):
        one_class += list(itertools.product(range(lo, lo + half), repeat=4 if thorough else 3))
    check_dedup(ctx, pats, targets, masks, one_class, "small-one-class")
    sampled = []
    for _ in range(40000 if thorough else 4000):
        L = rng.randrange(3, 7)
        sampled.append(tuple(rng.randrange(n) for _ in range(L)))
    check_dedup(ctx, pats, targets, masks, sampled, "small-sampled")
    # 3. listener reaction through the real API object
    llists = [()] + [(i,) for i in range(n)]
    pairs = list(itertools.product(range(n), repeat=2))
    llists += pairs if thorough else rng.sample(pairs, 700)
    llists += rng.sample(sampled, 6000 if thorough else 700)
    check_listener(ctx, pats, masks, cmds, list(range(len(cmds))), llists, "small-api")
    # 4. real command classes
    real_class_cases(ctx, 6000 if thorough else 900)

    streams = [("matches", "pattern.matches-vs-pmatches"), ("dedup", "deduplicate_commands-vs-dedup"),
               ("listener", "callback-count-through-ZBOSS-vs-resolve_count")]
    for s, name in streams:
        b = ctx.bad.get(s)
        chk.oblige("tieB:" + name, b is None, json.dumps(b, default=str)[:300] if b else "")
        m = ctx.mon.get(s)
        chk.oblige("monitor:" + s + "-rule-on-impl", m is None, (m[0][:300] if m else ""))
    b = ctx.bad.get("listener-arg")
    chk.oblige("tieB:callback-argument-is-the-received-command", b is None, json.dumps(b, default=str)[:300] if b else "")
    for s, b in ctx.bad.items():
        if s not in ctx.mon:
            chk.broken.append(BuildBroken("correspondence", "%s: the code differs from the model" % s, json.dumps(b, default=str)[:3000]))
    # every pattern built above was checked to hold exactly the parameters it was written with
    rb = READBACK_BAD[0] if READBACK_BAD else None
    chk.oblige("monitor:a-pattern-holds-exactly-the-parameters-it-was-written-with", rb is None,
               "%s(partial=True, %s): %s reads back %r" % (rb[0].__qualname__, ", ".join("%s=%r" % kv for kv in rb[1].items()), rb[2], rb[3]) if rb else "")
    if rb:
        cls_, kw_, name_, got_ = rb
        what = ("the pattern %s(partial=True, %s) does not hold what it was written with: parameter %s reads back %r"
                % (cls_.__qualname__, ", ".join("%s=%r" % kv for kv in kw_.items()), name_, got_))
        witness = None
        try:
            p_ = cls_(partial=True, **kw_)
            full = {}
            for prm in cls_.schema:
                d_ = domain(prm.type) or []
                alt = [v for v in d_ if prm.name not in kw_ or bytes(v.serialize()) != bytes(kw_[prm.name].serialize())]
                full[prm.name] = (alt or d_)[0] if prm.name == name_ else (kw_.get(prm.name) or d_[0])
            cmd_ = cls_(**full)
            if kw_.get(name_) is not None and alt and bool(p_.matches(cmd_)):
                witness = str(cmd_)
                what += "; it therefore matches %s, which disagrees with it on %s" % (cmd_, name_)
        except Exception:  # noqa
            pass
        chk.violation(what, {"class": cls_.__qualname__, "written_with": {k: repr(v) for k, v in kw_.items()},
                             "parameter": name_, "reads_back": repr(got_), "wrongly_matched_command": witness},
                      key="readback:%s:%s" % (cls_.__qualname__, name_))
    chk.sample({"pattern": str(pats[5]), "target": str(cmds[1]), "matches": bool(pats[5].matches(cmds[1]))})
    chk.sample({"dedup_in": [str(pats[i]) for i in (4, 1, 0, 30)],
                "dedup_out": [str(x) for x in impl_dedup([pats[i] for i in (4, 1, 0, 30)])[0]]})
    chk.exhaustive = False
    chk.extra["exhaustive_parts"] = [
        "matches: all 54 x 70 (pattern, target) pairs of the small universe",
        "dedup: all pattern lists of length <= %d over the 54 patterns; all lists of length %d within one class (2 x 27^%d)"
        % ((3, 4, 4) if thorough else (2, 3, 3))]
    chk.assumptions = ["parameter values are equal iff they serialise equally (used to number values for the model and by the "
                       "reference matcher)", "one command class per header (COMMANDS_BY_ID is a bijection)"]
    return chk.finish()


def replay(path):
    r = json.load(open(path))
    print(json.dumps(r, indent=1)[:3000])
    case = r.get("case") or {}
    try:
        if case.get("stream") == "matches":
            p, q = rebuild(case["pattern"]), rebuild(case["target"])
            print("impl   :", p.matches(q))
            print("rule   :", ref_match(p, q))
        elif case.get("stream") == "dedup":
            ps = [rebuild(d) for d in case["patterns"]]
            out, err = impl_dedup(ps)
            print("impl   :", err or [str(x) for x in out])
        elif case.get("stream") == "listener":
            ps = [rebuild(d) for d in case["patterns"]]
            q = rebuild(case["command"])
            import zigpy_zboss.commands as c  # noqa
            full = type(q)(**{p.name: getattr(q, p.name) for p in q.schema if getattr(q, p.name) is not None})
            res, _ = api_counts(ps, [full.to_frame()])
            print("impl   : invocations", res)
            print("rule   :", 1 if any(ref_match(p, full) for p in ps) else 0)
    except Exception as e:  # noqa
        print("replay failed:", repr(e))
    return 0
