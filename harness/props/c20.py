"""C20 - closing or losing the link never strands a caller and is reported once.

Proof: coq/Api/ApiProofs.v (invariants of the event-driven state machine Api.v, by induction over event histories).
Tie B: scenarios of concurrent requests x NCP events (matching / stale ACKs, responses, silence, cancellation, close,
loss, reset) injected at quiescent points of the REAL ZBOSS + ZbossNcpProtocol pair under a virtual-time asyncio
loop, compared step by step with the extracted model; monitor: the property's trace predicate on the impl log."""
import json

import api_tie as T


def run(chk):
    chk.build(["consts", "schemas", "tables"])
    thorough = chk.tier == "thorough"
    chk.rule = ("online-generated scenarios (4-16 events + closing ticks; focus=close) over 8 request kinds (blocking / non-blocking, "
                "1-3 fragments) and the events issue, ACK(n), response, data-in, tick, cancel, close, loss, reset begin/end; "
                "non-trivial = at least two requests issued; distinct by event list")
    if getattr(chk, "model", None) is None:
        return chk.finish()
    mons = [("close", T.mon_close)]
    T.campaign(chk, 600 if thorough else 150, "close", mons)
    T.campaign(chk, 300 if thorough else 60, "mixed", mons)
    # every short history, systematically (depth 4 in the quick tier: 9520 histories; depth 5 in the thorough tier)
    T.exhaustive(chk, 5 if thorough else 4, mons)
    extra(chk, thorough)
    extra_reset(chk)
    chk.assumptions = ["events are injected at quiescent points of the asyncio loop only (cancellation / I/O landing between two "
                       "loop iterations of one settle is outside the model)", "CPython asyncio Lock/Event/Future and async_timeout "
                       "semantics are modelled by the macro-step semantics of Api.v, not verified"]
    return chk.finish()


def replay(path):
    r = json.load(open(path))
    print(json.dumps(r, indent=1)[:3000])
    c = r.get("case", {})
    if "raw" in c:
        evs = [tuple(e) for e in c["raw"]]
        import common
        print("impl :", T.impl_run(evs))
        print("model:", T.model_run(common.Model(), evs))
    return 0


def extra(chk, thorough):
    """close() / loss injected at every quiescent point of fixed scenarios, with and without a reset in progress."""
    import api_common as A
    base = [("issue", 1, "b1"), ("issue", 2, "b1b"), ("issue", 3, "nb2"), ("ack", -1), ("issue", 4, "nb1"), ("ack", -1), ("ack", -1)]
    bad = None
    n = 0
    for cut in range(len(base) + 1):
        for what in ("close", "lost"):
            for reset in (False, True):
                evs = base[:cut] + ([("reset_begin",)] if reset else []) + [(what,)] + \
                    ([("tick", 300), ("close",)] if what == "lost" else []) + \
                    [("tick", 1000), ("issue", 9, "nb1"), (what,), ("close",), ("tick", 6000)]
                r = A.Runner()
                try:
                    real = []
                    steps = []
                    for e in evs:
                        if e == ("ack", -1):
                            e = ("ack", r.cur_seq())
                        real.append(e)
                        steps.append(T.canon_step(r.step(e)))
                finally:
                    r.close()
                n += 1
                chk.evaluations += 1
                m = T.mon_close(real, steps)
                if m is None and what == "close" and not reset:
                    # everything issued before the close has ended by the end of the 1000 ms tick
                    en = T.ends(steps)
                    idx = real.index(("close",))
                    late = [rid for rid in (1, 2, 3, 4) if any(e[0] == "issue" and e[1] == rid for e in real[:idx]) and (rid not in en or en[rid][0] > idx + 1)]
                    if late:
                        m = "requests %s still running after close + ACK wait" % late
                if m is not None and bad is None:
                    bad = ([T.ev_text(e) for e in real], m)
    chk.oblige("monitor:close/loss-at-every-quiescent-point(%d)" % n, bad is None, json.dumps(bad)[:300] if bad else "")
    if bad:
        chk.violation(bad[1], {"events": bad[0]}, key="close-point")


def extra_reset(chk):
    """The REAL reset procedure (api.reset()): the link drops at every quiescent point of it - the application is not told
    while the reset is in progress, and is told exactly once for a loss after the reset has completed."""
    import api_common as A
    bad = None
    n = 0
    for pre in ([], [("issue", 1, "nb1"), ("ack", -1)], [("issue", 1, "b1")]):
        for acked in (False, True):
            for wait in (0, 300):
                evs = list(pre) + [("reset",)]
                if pre == [("issue", 1, "b1")]:
                    evs += [("ack", -1)]          # the pending request's frame is acknowledged, the reset frame goes out
                if acked:
                    evs += [("ack", -1)]
                if wait:
                    evs += [("tick", wait)]
                mark = len(evs)
                evs += [("lost",), ("tick", 1000), ("tick", 1000), ("tick", 1000), ("tick", 6000), ("tick", 6000)]
                r = A.Runner()
                try:
                    steps = []
                    for e in evs:
                        if e == ("ack", -1):
                            e = ("ack", r.cur_seq())
                        steps.append(r.step(e))
                    during = sum(st.count("L") for st in steps)
                    done = r.real_reset.done()
                    exc = None
                    if done and not r.real_reset.cancelled():
                        exc = r.real_reset.exception()
                    # after the reset has completed (reconnected) a loss is reported, exactly once
                    after = None
                    if done and exc is None:
                        a1 = r.step(("lost",)).count("L")
                        a2 = r.step(("tick", 1000)).count("L")
                        after = a1 + a2
                finally:
                    r.close()
                n += 1
                chk.evaluations += 1
                m = None
                if during != 0:
                    m = "the application was told about a connection loss %d time(s) while a deliberate reset was in progress" % during
                elif not done:
                    m = "reset() never completed after the link dropped and came back"
                elif exc is not None:
                    m = "reset() failed: %r" % exc
                elif after != 1:
                    m = "a connection loss after the completed reset was reported %d times (expected exactly once)" % after
                if m is not None and bad is None:
                    bad = ([str(e) for e in evs], m, mark)
    # a reset that completes WITHOUT the link dropping (the NCP never disconnects - "external UART" - or the caller does
    # not wait for it): the reset is over, so a later genuine loss is reported, exactly once
    for how in ("reset", "reset_nowait"):
        for pre in ([], [("issue", 1, "nb1"), ("ack", -1), ("rsp", "nb1")]):
            evs = list(pre) + [(how,), ("ack", -1), ("tick", 1000), ("tick", 6000), ("tick", 1000)]
            r = A.Runner()
            try:
                steps = []
                for e in evs:
                    if e == ("ack", -1):
                        e = ("ack", r.cur_seq())
                    steps.append(r.step(e))
                during = sum(st.count("L") for st in steps)
                done = r.real_reset.done()
                a1 = r.step(("lost",)).count("L") + r.step(("tick", 1000)).count("L")
            finally:
                r.close()
            n += 1
            chk.evaluations += 1
            m = None
            if during != 0:
                m = "the application was told about a connection loss although the link never dropped"
            elif not done:
                m = "%s() did not complete although the disconnect wait had expired" % how
            elif a1 != 1:
                m = ("a connection loss AFTER a reset that had completed without a disconnect was reported %d times "
                     "(expected exactly once)" % a1)
            if m is not None and bad is None:
                bad = ([str(e) for e in evs] + ["('lost',)"], m, len(evs))
    chk.oblige("monitor:real-reset-procedure-x-loss-at-every-point(%d)" % n, bad is None, json.dumps(bad)[:300] if bad else "")
    if bad:
        chk.violation(bad[1], {"events": bad[0], "loss_injected_at_index": bad[2]}, key="reset-loss")
