"""C16 - wire types are self-delimiting, strict on short input, and invert exactly.

Proof: coq/Wire/WtyProofs.v (generic codec universe) [+ Wire/CStructProofs.v, Wire/NvramProofs.v].
Tie B: every Python wire type reachable from the command schemas plus the library's own container types:
random valid values x arbitrary suffixes x EVERY truncation point: T(v).serialize() / T.deserialize() vs the
model codec of the type's classified descriptor (the classification itself is what is being tested here);
monitor: the property's rules on the impl alone."""
import json

import wire_common as W


def all_wire_types():
    import zigpy.types as zt
    import zigpy_zboss.types as t
    from zigpy_zboss.types import basic as tb
    seen = {}
    cmds, _ = W.PS.all_commands()
    for cls in cmds:
        for p in cls.schema:
            seen[p.type.__module__ + "." + p.type.__qualname__] = p.type

    class L8(tb.LVList, item_type=t.uint16_t, length_type=t.uint8_t):
        pass

    class L16(tb.LVList, item_type=zt.EUI64, length_type=t.uint16_t):
        pass

    class F3(tb.FixedList, item_type=t.uint24_t, length=3):
        pass

    class CL(tb.CompleteList, item_type=t.ChannelEntry):
        pass

    class LL(tb.LVList, item_type=t.ShortBytes, length_type=t.uint8_t):
        pass
    for ty in (t.ShortBytes, t.LongBytes, L8, L16, F3, CL, LL, t.ChannelEntry, t.NWKList, t.uint24_t, t.uint40_t, t.uint64_t,
               zt.KeyData, zt.ExtendedPanId, t.enum24, t.enum40, t.enum64, t.DSIbCounters, t.MacInterfaceTable, t.DSCommonData,
               t.NwkAddrMapRecord, t.ApsSecureEntry, t.NwkAddrMapHeader):
        seen[ty.__module__ + "." + ty.__qualname__] = ty
    return seen


def run(chk):
    chk.build(["schemas", "consts"])
    rng = chk.rng
    model = getattr(chk, "model", None)
    thorough = chk.tier == "thorough"
    chk.rule = ("every Python wire type reachable from the schemas + container types (ShortBytes, LongBytes, LVList, FixedList, "
                "CompleteList, zigpy structs, NVRAM records) x %d random valid values x random suffix x every truncation point; "
                "non-trivial = encoding longer than 1 byte; distinct by (type, encoding)" % (25 if thorough else 6))
    if model is None:
        return chk.finish()
    types = all_wire_types()
    per = 25 if thorough else 6
    lines, cases = [], []
    for name, ty in sorted(types.items()):
        try:
            c = W.classify(ty)
        except Exception as e:  # noqa
            chk.oblige("classify:" + name, False, str(e))
            continue
        tt = W.ty_text(c)
        greedy = c[0] == "greedy" or (c[0] == "struct" and any(f[0] == "greedy" for _, f in c[1]))
        for _ in range(per):
            v = W.gen_py(rng, ty)
            enc = bytes(v.serialize())
            mv = W.to_model(c, v)
            lines.append("wenc %s %s" % (tt, mv))
            cases.append(("enc", name, ty, c, v, enc, None))
            suffix = b"" if greedy else bytes(rng.randrange(256) for _ in range(rng.choice([0, 1, 2, 5])))
            lines.append("wdec %s %s" % (tt, W.hexs(enc + suffix)))
            cases.append(("dec", name, ty, c, v, enc, enc + suffix))
            cuts = range(len(enc)) if len(enc) <= 60 else sorted(set([0, 1, 2, len(enc) - 1] + [rng.randrange(len(enc)) for _ in range(20)]))
            for k in cuts:
                lines.append("wdec %s %s" % (tt, W.hexs(enc[:k])))
                cases.append(("cut", name, ty, c, v, enc, enc[:k]))
    outs = model.batch(lines)
    tie_bad = mon_bad = None
    for (kind, name, ty, c, v, enc, data), o in zip(cases, outs):
        chk.note_case((name, kind, enc, data), nontrivial=len(enc) > 1)
        chk.count("kind_" + kind)
        greedy = c[0] == "greedy"
        if kind == "enc":
            got = W.hexs(enc)
            mon = None
        else:
            try:
                dv, rest = ty.deserialize(data)
                got = "%s %s" % (W.to_model(c, dv), W.hexs(bytes(rest)))
            except ValueError:
                got, dv, rest = "NONE", None, None
            except Exception as e:  # noqa
                got, dv, rest = "EXC:" + type(e).__name__, None, None
            mon = None
            if kind == "dec":
                if dv is None or dv != v or bytes(rest) != data[len(enc):]:
                    mon = "decoding the encoding + suffix does not return the value and the suffix: %s" % got[:120]
            elif kind == "cut" and not greedy:
                if got != "NONE":
                    # a cut encoding must raise ValueError (a struct ending in a greedy list may legitimately decode a prefix)
                    if not (c[0] == "struct" and c[1] and c[1][-1][1][0] == "greedy"):
                        mon = "encoding cut short to %d of %d bytes decodes to %s instead of raising ValueError" % (len(data), len(enc), got[:100])
        if mon is not None:
            if mon_bad is None:
                mon_bad = (name, mon)
            if len(chk.violations) < 5:
                chk.violation("%s: %s" % (name, mon), {"type": name, "value": W.to_model(c, v), "encoding": W.hexs(enc), "data": W.hexs(data or b"")},
                              key="%s:%s" % (name, kind))
        if got != o and tie_bad is None:
            tie_bad = (name, kind, W.hexs(data or enc), got, o)
    chk.oblige("tieB:serialize/deserialize-vs-model-codec(%d types, %d cases)" % (len(types), len(cases)), tie_bad is None,
               repr(tie_bad)[:300] if tie_bad else "")
    chk.oblige("monitor:roundtrip+strictness-on-impl", mon_bad is None, repr(mon_bad)[:300] if mon_bad else "")
    if tie_bad and not mon_bad:
        from common import BuildBroken
        chk.broken.append(BuildBroken("correspondence", "a wire type's codec differs from the model of its classified descriptor", json.dumps(tie_bad)))
    chk.extra["types_tested"] = sorted(types)
    lists_of_structs(chk)
    # C-structs and NVRAM containers (independent sub-model)
    try:
        import cstruct_tie
        cstruct_tie.run_cstruct(chk)
        cstruct_tie.run_nvram(chk)
    except ImportError:
        chk.extra["cstruct_part"] = "not built yet"
    k = len(cases) // 3
    chk.sample({"type": cases[k][1], "value": W.to_model(cases[k][3], cases[k][4]), "encoding": W.hexs(cases[k][5])})
    chk.assumptions = ["zigpy leaf types are modelled (little-endian fixed width, enums accept undefined members, bit-field structs "
                       "as their byte image); tested here per type"]
    return chk.finish()


def lists_of_structs(chk):
    """Lists (counted, fixed, greedy) whose items are C-style structs, under both alignment modes: the list's encoding is its
    count prefix followed by the items' own encodings IN THE SAME alignment mode, decoding encoding + suffix returns the
    items and exactly the suffix, and every truncation raises.  (The struct codec itself is tied to the model by the
    cstruct part; this is the composition of the two.)"""
    import zigpy.types as zt
    import zigpy_zboss.types as t
    from zigpy_zboss.types.cstruct import CStruct
    rng = chk.rng

    class Tail(CStruct):            # trailing padding when aligned: 4 + 1 (+3)
        a: zt.uint32_t
        b: zt.uint8_t

    class Inner(CStruct):           # inter-field padding when aligned: 1 (+3) + 4
        a: zt.uint8_t
        b: zt.uint32_t

    class Mixed(CStruct):           # 2 + 1 (+1) + 2 (+2?) ...
        a: zt.uint16_t
        b: zt.uint8_t
        c: zt.uint16_t

    class Flat(CStruct):            # no padding at all
        a: zt.uint8_t
        b: zt.uint8_t
    bad = None
    n = 0
    for S in (Tail, Inner, Mixed, Flat):
        class LV(t.LVList, item_type=S, length_type=zt.uint8_t):
            pass

        class FX(t.FixedList, item_type=S, length=3):
            pass

        class GR(t.CompleteList, item_type=S):
            pass
        for L, kind in ((LV, "counted"), (FX, "fixed"), (GR, "greedy")):
            for align in (False, True):
                for count in ([3] if kind == "fixed" else [0, 1, 2, 4]):
                    items = [S(**{f.name: rng.randrange(1, 1 << (8 * f.type._size)) for f in S.fields}) for _ in range(count)]
                    want = (bytes([count]) if kind == "counted" else b"") + b"".join(i.serialize(align=align) for i in items)
                    try:
                        enc = bytes(L(items).serialize(align=align))
                    except Exception as e:  # noqa
                        enc = b"EXC" + type(e).__name__.encode()
                    n += 1
                    what = None
                    if enc != want:
                        what = "encodes to %s, its items encode (align=%s) to %s" % (enc.hex(), align, want.hex())
                    else:
                        for suffix in ([b""] if kind == "greedy" else [b"", b"\x01", b"\xde\xad\x00"]):
                            n += 1
                            try:
                                val, rest = L.deserialize(enc + suffix, align=align)
                                ok = list(val) == items and bytes(rest) == suffix
                                got = "%d items, %d bytes left" % (len(val), len(rest))
                            except Exception as e:  # noqa
                                ok, got = False, "raised %s" % type(e).__name__
                            if not ok:
                                what = "decoding its encoding + %d further bytes gives %s" % (len(suffix), got)
                                break
                        if what is None and kind != "greedy":
                            for cut in range(len(enc)):
                                n += 1
                                try:
                                    val, rest = L.deserialize(enc[:cut], align=align)
                                    what = "its encoding (%d bytes) cut to %d bytes decodes to %d items instead of raising" % (len(enc), cut, len(val))
                                    break
                                except ValueError:
                                    pass
                                except Exception as e:  # noqa
                                    what = "its encoding cut to %d bytes raises %s, not a value error" % (cut, type(e).__name__)
                                    break
                    if what is not None and bad is None:
                        bad = ("%s list of %s (fields %s), align=%s, %d items" % (kind, S.__name__, [f.type.__name__ for f in S.fields], align, count), what)
    chk.evaluations += n
    chk.count("lists_of_structs", n)
    chk.oblige("monitor:lists-of-structs-compose-with-the-struct-codec(both alignment modes: %d evaluations)" % n, bad is None,
               repr(bad)[:300] if bad else "")
    if bad:
        chk.violation("%s: %s" % bad, {"list": bad[0], "what": bad[1]}, key="list-of-structs")


def replay(path):
    print(open(path).read()[:3000])
    return 0
