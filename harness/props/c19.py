"""C19 - command identifiers, field layouts and enum values stay the NCP protocol's.

Proof: coq/Cmd/Pinned.v: the schema and enum tables REGENERATED from the tree equal the tables pinned at the
interoperating revision (kernel-checked equality of closed terms); unique headers; Req/Rsp pairing.
Tie B: every pinned vector (class, assignment, literal wire bytes) is re-encoded by the implementation and by
the model and compared with the stored bytes; COMMANDS_BY_ID lookups; decode back for Rsp/Ind."""
import json
import os

import common
import wire_common as W


def run(chk):
    chk.build(["schemas", "enums", "consts", "tables"])
    model = getattr(chk, "model", None)
    import zigpy_zboss.commands as c
    vecs = json.load(open(os.path.join(common.VERIF, "pinned", "vectors.json")))
    chk.rule = ("all %d pinned vectors (6 per class for each of the 145 classes: boundary and seeded random assignments with the wire "
                "bytes produced at revision %s); non-trivial = class with parameters beyond TSN; distinct by (class, assignment)"
                % (len(vecs["vectors"]), vecs["revision"]))
    table = {cls.__qualname__: (idx, cls) for idx, cls in W.command_table()}
    bad = None
    drift = []
    lines, mcases = [], []
    for v in vecs["vectors"]:
        name = v["class"]
        chk.note_case((name, v["assignment"]), nontrivial=len(v["assignment"].split()) > 1)
        if name not in table:
            drift.append((name, "class no longer exists"))
            continue
        idx, cls = table[name]
        if int(cls.header) != v["header"]:
            drift.append((name, "header %d, pinned %d" % (int(cls.header), v["header"])))
        if c.COMMANDS_BY_ID.get(cls.header) is not cls:
            drift.append((name, "COMMANDS_BY_ID does not map its header to it"))
        toks = v["assignment"].split()
        try:
            sg = v.get("signed") or [None] * len(toks)
            kw = {p.name: W.from_model(p.type, t, list(s_) if s_ else None) for p, t, s_ in zip(cls.schema, toks, sg) if t != "n"}
            if len(toks) != len(cls.schema):
                raise ValueError("schema has %d parameters, pinned %d" % (len(cls.schema), len(toks)))
            fr = cls(**kw).to_frame()
            body, frame = W.hexs(bytes(fr.hl_packet.data)), W.hexs(fr.serialize())
        except Exception as e:  # noqa
            body = frame = "EXC:%s:%s" % (type(e).__name__, str(e)[:80])
        if body != v["body"] or frame != v["frame"]:
            drift.append((name, "assignment %s encodes to %s, pinned %s" % (v["assignment"], frame[:80], v["frame"][:80])))
            if bad is None:
                bad = v
                chk.violation("%s: wire bytes differ from the pinned revision for %s: now %s, pinned %s"
                              % (name, v["assignment"], frame, v["frame"]),
                              {"vector": v, "now": frame}, key="drift:" + name)
        elif ((v["header"] >> 8) & 0xFF) in (1, 2):
            got = W.impl_from_body(cls, bytes.fromhex(v["body"]) if v["body"] != "-" else b"")
            if got[2:] != v["assignment"]:
                drift.append((name, "pinned bytes decode to %s, pinned assignment %s" % (got, v["assignment"])))
                chk.violation("%s: the pinned wire bytes %s decode to %s, not to %s" % (name, v["body"], got, v["assignment"]),
                              {"vector": v, "decoded": got}, key="decode-drift:" + name)
        if model is not None:
            lines.append("cmdenc %d %s" % (v["index"], v["assignment"]))
            mcases.append(v)
    chk.oblige("monitor:impl-reproduces-pinned-bytes(%d vectors)" % len(vecs["vectors"]), not drift, json.dumps(drift[:5]))
    if model is not None:
        outs = model.batch(lines)
        mbad = [(v["class"], o, v["body"]) for v, o in zip(mcases, outs) if o != v["body"]]
        chk.oblige("tieB:model-reproduces-pinned-bytes", not mbad, json.dumps(mbad[:3]))
    # enum members: checked by the kernel (GenEnums = PinnedEnums); here: COMMANDS_BY_ID size and pairing on the impl
    n_by_id = len(c.COMMANDS_BY_ID)
    chk.oblige("COMMANDS_BY_ID has one entry per class (%d)" % n_by_id, n_by_id == len(table), "%d vs %d" % (n_by_id, len(table)))
    if chk.broken and not chk.violations:
        # proof broken (tables differ) but no vector differs: look for the differing table row
        pass
    chk.sample(vecs["vectors"][7])
    chk.exhaustive = True
    chk.assumptions = ["the pinned tables/vectors were generated once from revision %s by tools/mkpinned.py and are committed" % vecs["revision"]]
    return chk.finish()


def replay(path):
    print(open(path).read()[:3000])
    return 0
