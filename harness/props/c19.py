"""C19 - command identifiers, field layouts and enum values stay the NCP protocol's.

Proof: coq/Cmd/Pinned.v: the schema and enum tables REGENERATED from the tree equal the tables pinned at the
interoperating revision (kernel-checked equality of closed terms); unique headers; Req/Rsp pairing.
Tie B: every pinned vector (class, assignment, literal wire bytes) is re-encoded by the implementation and by
the model and compared with the stored bytes; COMMANDS_BY_ID lookups; decode back for Rsp/Ind."""
import json
import os

import common
import wire_common as W


def run(chk):
    chk.build(["schemas", "enums", "consts", "tables"])
    model = getattr(chk, "model", None)
    import zigpy_zboss.commands as c
    vecs = json.load(open(os.path.join(common.VERIF, "pinned", "vectors.json")))
    chk.rule = ("all %d pinned vectors (6 per class for each of the 145 classes: boundary and seeded random assignments with the wire "
                "bytes produced at revision %s); non-trivial = class with parameters beyond TSN; distinct by (class, assignment)"
                % (len(vecs["vectors"]), vecs["revision"]))
    table = {cls.__qualname__: (idx, cls) for idx, cls in W.command_table()}
    bad = None
    drift = []
    lines, mcases = [], []
    for v in vecs["vectors"]:
        name = v["class"]
        chk.note_case((name, v["assignment"]), nontrivial=len(v["assignment"].split()) > 1)
        if name not in table:
            drift.append((name, "class no longer exists"))
            continue
        idx, cls = table[name]
        if int(cls.header) != v["header"]:
            drift.append((name, "header %d, pinned %d" % (int(cls.header), v["header"])))
        if c.COMMANDS_BY_ID.get(cls.header) is not cls:
            drift.append((name, "COMMANDS_BY_ID does not map its header to it"))
        toks = v["assignment"].split()
        try:
            sg = v.get("signed") or [None] * len(toks)
            kw = {p.name: W.from_model(p.type, t, list(s_) if s_ else None) for p, t, s_ in zip(cls.schema, toks, sg) if t != "n"}
            if len(toks) != len(cls.schema):
                raise ValueError("schema has %d parameters, pinned %d" % (len(cls.schema), len(toks)))
            fr = cls(**kw).to_frame()
            body, frame = W.hexs(bytes(fr.hl_packet.data)), W.hexs(fr.serialize())
        except Exception as e:  # noqa
            body = frame = "EXC:%s:%s" % (type(e).__name__, str(e)[:80])
        # the same assignment with the items of its integer lists given as integers of ANOTHER width (or plain ints): the
        # pinned revision converts every list item to the field's item type, so the wire bytes are the pinned ones
        if not body.startswith("EXC:") and body == v["body"]:
            try:
                kw2, changed = {}, False
                for p in cls.schema:
                    if p.name not in kw:
                        continue
                    val = kw[p.name]
                    if W.classify(p.type)[0] in ("lvlist", "fixlist", "greedy") and len(val):
                        new = W.foreign_items(chk.rng, p.type, list(val), always=True)
                        changed = changed or any(type(a) is not type(b) for a, b in zip(new, val))
                        val = p.type(new)
                    kw2[p.name] = val
                if changed:
                    body2 = W.hexs(bytes(cls(**kw2).to_frame().hl_packet.data))
                    chk.evaluations += 1
                    chk.count("foreign_width_item_variants")
                    if body2 != v["body"] and bad is None:
                        bad = v
                        drift.append((name, "list items given with another integer width encode to %s, pinned %s" % (body2[:80], v["body"][:80])))
                        chk.violation("%s: with the items of its list parameters given as integers of another width, %s encodes "
                                      "to %s; the pinned bytes (field widths of the protocol) are %s"
                                      % (name, v["assignment"], body2, v["body"]), {"vector": v, "now": body2}, key="width-drift:" + name)
            except Exception as e:  # noqa
                drift.append((name, "foreign-width items refused: %s" % type(e).__name__))
        # the same assignment with every integer-like parameter (plain, enum, bitmap) given as a zigpy integer of ANOTHER
        # width: the pinned revision converts every value to the field's own type, so the field layout on the wire is the
        # schema's, whatever the caller's runtime type
        if not body.startswith("EXC:") and body == v["body"]:
            try:
                import zigpy.types as zt
                kw3, changed3 = dict(kw), False
                for p in cls.schema:
                    import enum as _enum
                    if p.name not in kw or W.classify(p.type)[0] != "int" or issubclass(p.type, _enum.Enum):
                        continue            # (an enumeration field refuses anything but its own type)
                    iv = int(kw[p.name])
                    if iv < 0:
                        continue
                    width = W.classify(p.type)[1]
                    pool = [q for q in (zt.uint8_t, zt.uint16_t, zt.uint32_t, zt.uint64_t) if q._size != width and iv < (1 << (8 * q._size))]
                    if pool:
                        kw3[p.name] = pool[0](iv)
                        changed3 = True
                if changed3:
                    body3 = W.hexs(bytes(cls(**kw3).to_frame().hl_packet.data))
                    chk.evaluations += 1
                    chk.count("foreign_width_scalar_variants")
                    if body3 != v["body"] and bad is None:
                        bad = v
                        drift.append((name, "integers given with another width encode to %s, pinned %s" % (body3[:80], v["body"][:80])))
                        chk.violation("%s: with its integer parameters given as zigpy integers of another width, %s encodes to %s; "
                                      "the pinned bytes (field widths of the protocol) are %s" % (name, v["assignment"], body3, v["body"]),
                                      {"vector": v, "now": body3}, key="scalar-width-drift:" + name)
            except Exception as e:  # noqa
                drift.append((name, "integers of another width refused: %s: %s" % (type(e).__name__, str(e)[:80])))
        if body != v["body"] or frame != v["frame"]:
            drift.append((name, "assignment %s encodes to %s, pinned %s" % (v["assignment"], frame[:80], v["frame"][:80])))
            if bad is None:
                bad = v
                chk.violation("%s: wire bytes differ from the pinned revision for %s: now %s, pinned %s"
                              % (name, v["assignment"], frame, v["frame"]),
                              {"vector": v, "now": frame}, key="drift:" + name)
        elif ((v["header"] >> 8) & 0xFF) in (1, 2):
            got = W.impl_from_body(cls, bytes.fromhex(v["body"]) if v["body"] != "-" else b"")
            if got[2:] != v["assignment"]:
                drift.append((name, "pinned bytes decode to %s, pinned assignment %s" % (got, v["assignment"])))
                chk.violation("%s: the pinned wire bytes %s decode to %s, not to %s" % (name, v["body"], got, v["assignment"]),
                              {"vector": v, "decoded": got}, key="decode-drift:" + name)
        if model is not None:
            lines.append("cmdenc %d %s" % (v["index"], v["assignment"]))
            mcases.append(v)
    chk.oblige("monitor:impl-reproduces-pinned-bytes(%d vectors)" % len(vecs["vectors"]), not drift, json.dumps(drift[:5]))
    # "command headers identify command types one-to-one", on the decoding side: a frame is accepted only by the class
    # its header names - not by the class of the same command id and the OTHER control type (request <-> response <->
    # indication), nor by any other class
    by_id = {}
    for cls_name, (idx_, cls_) in table.items():
        by_id.setdefault(int(cls_.header) >> 16, []).append(cls_)
    cross_bad = None
    n_cross = 0
    for v in vecs["vectors"]:
        if v["class"] not in table:
            continue
        _, a_cls = table[v["class"]]
        body_b = bytes.fromhex(v["body"]) if v["body"] != "-" else b""
        others = [k for k in by_id.get(int(a_cls.header) >> 16, []) if k is not a_cls]
        for b_cls in others:
            n_cross += 1
            chk.evaluations += 1
            try:
                got = b_cls.from_frame(W.frame_with_body(a_cls, body_b))
            except (ValueError, KeyError):
                continue
            except Exception as e:  # noqa
                got = "raised %s" % type(e).__name__
            if cross_bad is None:
                cross_bad = (b_cls.__qualname__, a_cls.__qualname__, v["body"], str(got)[:160])
                chk.violation("%s.from_frame accepts a frame whose header (0x%08X) names %s: body %s is decoded as %s"
                              % (b_cls.__qualname__, int(a_cls.header), a_cls.__qualname__, v["body"], str(got)[:200]),
                              {"decoding_class": b_cls.__qualname__, "frame_header": int(a_cls.header), "frame_class": a_cls.__qualname__,
                               "body": v["body"]}, key="cross-decode:" + b_cls.__qualname__)
    chk.count("cross_type_decodes", n_cross)
    chk.oblige("monitor:a-frame-is-accepted-only-by-the-class-its-header-names(%d cross-type decodes)" % n_cross, cross_bad is None,
               repr(cross_bad)[:300] if cross_bad else "")
    if model is not None:
        outs = model.batch(lines)
        mbad = [(v["class"], o, v["body"]) for v, o in zip(mcases, outs) if o != v["body"]]
        chk.oblige("tieB:model-reproduces-pinned-bytes", not mbad, json.dumps(mbad[:3]))
    # enum members: checked by the kernel (GenEnums = PinnedEnums); here: COMMANDS_BY_ID size and pairing on the impl
    n_by_id = len(c.COMMANDS_BY_ID)
    chk.oblige("COMMANDS_BY_ID has one entry per class (%d)" % n_by_id, n_by_id == len(table), "%d vs %d" % (n_by_id, len(table)))
    # the enum / flag tables regenerated from the tree against the pinned ones, member by member (the kernel proves the
    # equality of the whole tables; this names the member that differs - the concrete failing input when it does not)
    import re
    import common as _c

    def enum_rows(path):
        rows = {}
        try:
            txt = open(path).read()
        except OSError:
            return None
        for name, width, members in re.findall(r'\("([^"]+)", (\d+), \[(.*?)\]\)', txt, flags=re.S):
            rows[name] = (int(width), re.findall(r'\("([^"]+)", (\d+)\)', members))
        return rows
    gen = enum_rows(os.path.join(_c.COQ, "gen", "GenEnums.v"))
    pin = enum_rows(os.path.join(_c.COQ, "pinned", "PinnedEnums.v"))
    ebad = None
    if gen is not None and pin is not None:
        for name in sorted(set(gen) | set(pin)):
            if name not in gen or name not in pin:
                ebad = (name, "enumeration %s" % ("disappeared" if name in pin else "is new"), "", "")
                break
            if gen[name] != pin[name]:
                g, p_ = dict(gen[name][1]), dict(pin[name][1])
                diff = [(k, g.get(k), p_.get(k)) for k in list(p_) + [k for k in g if k not in p_] if g.get(k) != p_.get(k)]
                ebad = (name, "width %d (pinned %d)" % (gen[name][0], pin[name][0]) if gen[name][0] != pin[name][0] else
                        ("member %s = %s, the protocol's value (pinned) is %s" % diff[0] if diff else "member order changed"), "", "")
                break
        chk.evaluations += sum(len(v[1]) for v in pin.values())
        chk.count("enum_members_compared", sum(len(v[1]) for v in pin.values()))
    chk.oblige("monitor:enum-and-flag-members-equal-pinned(member by member)", ebad is None, repr(ebad) if ebad else "")
    if ebad:
        chk.violation("%s: %s" % (ebad[0], ebad[1]), {"enum": ebad[0], "difference": ebad[1]}, key="enum:" + ebad[0])
    chk.sample(vecs["vectors"][7])
    chk.exhaustive = True
    chk.assumptions = ["the pinned tables/vectors were generated once from revision %s by tools/mkpinned.py and are committed" % vecs["revision"]]
    return chk.finish()


def replay(path):
    print(open(path).read()[:3000])
    return 0
