"""C10 - fragmented incoming messages are reassembled into exactly the original.

Proof: coq/Link/ReasmProofs.v (+ C01 for the wire, C09 for the transmitter's pieces).
Tie B: large indications split into fragments of random sizes (first >= 4 bytes), chunked randomly, fed to the
real ZbossNcpProtocol + ZBOSS pair; truncated sequences followed by complete messages; loopback of what the
host's own transmitter emits. Observation: commands delivered to an indication listener registered through the
public API; compared with the model pipeline (spec parse -> reassembly -> from_body); monitor: delivered
commands == original commands."""
import asyncio
import json

from common import hexs
import access as X
import wire_common as W
from impl_link import build_frame_bytes


def make_pair():
    from vloop import VLoop, Wire
    import zigpy_zboss.config as conf
    from zigpy_zboss.api import ZBOSS
    from zigpy_zboss import uart as U
    loop = VLoop()
    asyncio.set_event_loop(loop)
    cfg = conf.CONFIG_SCHEMA({conf.CONF_DEVICE: {conf.CONF_DEVICE_PATH: "/dev/null"}})
    api = ZBOSS(cfg)
    proto = U.ZbossNcpProtocol(cfg[conf.CONF_DEVICE], api)
    w = Wire()
    proto.connection_made(w)
    X.aset(api, "uart", proto)
    return loop, api, proto, w


def split_message(rng, header, data, seq0=0, drop_last=False, own_tx=False, fixed_cuts=None):
    """Wire bytes of the message as link-layer fragments with random sizes."""
    ser = int(header).to_bytes(4, "little") + bytes(data)
    if own_tx:
        import zigpy_zboss.types as t
        from zigpy_zboss.frames import Frame, HLPacket, LLHeader
        from zigpy_zboss.checksum import CRC8
        hl = HLPacket(t.HLCommonHeader(header), t.Bytes(data))
        ll = LLHeader().with_signature(Frame.signature).with_size((hl.length + 5) & 0xFFFF).with_type(6).with_flags(0xC0)
        out = []
        for i, f in enumerate(Frame(ll, hl).handle_tx_fragmentation()):
            # the Retransmit bit says "this is a second copy"; a copy whose first transmission never arrived is the only one
            rt = 2 if rng.random() < 0.2 else 0
            f.ll_header = f.ll_header.with_flags(int(f.ll_header.flags) | (((seq0 + i) % 4) << 2) | rt)
            f.ll_header = f.ll_header.with_crc8(CRC8(f.ll_header.serialize()[2:6]).digest())
            out.append(f.serialize())
        return out[:-1] if drop_last and len(out) > 1 else out
    k = rng.choice([1, 2, 2, 3, 4]) if len(ser) > 8 else 1
    cuts = sorted(set([rng.randrange(4, len(ser)) for _ in range(k - 1)])) if len(ser) > 5 else []
    if fixed_cuts is not None:
        cuts = [x for x in fixed_cuts if 4 <= x < len(ser)]
    pts = [0] + cuts + [len(ser)]
    pieces = [ser[a:b] for a, b in zip(pts, pts[1:])]
    out = []
    for i, p in enumerate(pieces):
        fl = (0x40 if i == 0 else 0) | (0x80 if i == len(pieces) - 1 else 0) | (((seq0 + i) % 4) << 2) | (2 if rng.random() < 0.2 else 0)
        if i == 0:
            out.append(build_frame_bytes(int.from_bytes(p[:4], "little"), p[4:], fl))
        else:
            out.append(build_frame_bytes(None, p, fl))
    if drop_last and len(out) > 1:
        out = out[:-1]
    return out


def run_impl(stream, cuts, cls_list):
    loop, api, proto, w = make_pair()
    try:
        got = []
        for cls in cls_list:
            api.register_indication_listener(cls(partial=True), lambda cmd: got.append(cmd))
        pts = [0] + [c for c in cuts if 0 < c < len(stream)] + [len(stream)]
        for a, b in zip(pts, pts[1:]):
            proto.data_received(stream[a:b])
            loop.settle()
        return got, len(X.aget(api, "rx_fragments"))
    finally:
        asyncio.set_event_loop(None)
        loop.close()


def run(chk):
    chk.build(["schemas", "consts", "tables"])
    rng = chk.rng
    model = getattr(chk, "model", None)
    thorough = chk.tier == "thorough"
    import zigpy_zboss.commands as c
    chk.rule = ("scenarios of 1-4 indications/responses (payload 0..700 bytes) each split into 1-4 fragments of random sizes or by "
                "the host's own transmitter, some sequences cut before their last fragment, random chunking; non-trivial = at least "
                "one message in more than one fragment; distinct by (stream, cuts)")
    if model is None:
        return chk.finish()
    table = {cls.__qualname__: idx for idx, cls in W.command_table()}
    big = [c.APS.DataIndication.Ind, c.ZDO.NwkAddrReq.Rsp, c.NcpConfig.ReadNVRAM.Rsp, c.ZDO.MgmtLqi.Rsp]
    small = [c.NcpConfig.GetModuleVersion.Rsp, c.ZDO.DevAnnceInd.Ind, c.NcpConfig.GetZigbeeRole.Rsp]
    classes = big + small
    scen = []
    # the host's own transmitter at every message length around the multiples of the fragment size (the lengths where
    # the first fragment is shortest / bumped to hold the 4-byte header): what it emits must be what the receiver accepts
    targets = [L for k in (1, 2, 3, 4) for L in range(247 * k - 3, 247 * k + 6)] + [4 + 1, 300, 600, 1000]
    for L in targets:
        cls = c.APS.DataIndication.Ind
        kw = W.gen_assignment(rng, cls)
        kw["Payload"] = type(kw["Payload"])([])
        base = cls(**kw).to_frame().hl_packet.length - 2     # header + parameters without the body checksum
        n = L - base
        if n < 0:
            continue
        kw["Payload"] = type(kw["Payload"])([rng.randrange(256) for _ in range(n)])
        kw["DataLength"] = type(kw["DataLength"])(n % 65536) if "DataLength" in kw else None
        if kw.get("DataLength") is None:
            kw.pop("DataLength", None)
        cmd = cls(**kw)
        body = bytes(cmd.to_frame().hl_packet.data)
        frs = split_message(rng, int(cls.header), body, rng.randrange(4), own_tx=True)
        stream = b"".join(frs)
        cuts = sorted(set(rng.randrange(1, max(2, len(stream))) for _ in range(rng.randrange(0, 4))))
        scen.append((stream, cuts, [(cls, kw, cmd)], len(frs)))
        chk.count("own_tx_boundary_lengths")
    # very large fragments (the link format allows 16-bit lengths; nothing limits an incoming fragment to the 247 bytes
    # the host's own transmitter uses): lengths around 4096 and above
    for cutlist in ([100, 4189, 8277], [4], [5000, 5247, 5494], [4088 + 4, 8180], [4089 + 4]):
        cls = c.APS.DataIndication.Ind
        kw = W.gen_assignment(rng, cls)
        kw["Payload"] = type(kw["Payload"])([rng.randrange(256) for _ in range(9000)])
        if "DataLength" in kw:
            kw["DataLength"] = type(kw["DataLength"])(9000)
        cmd = cls(**kw)
        body = bytes(cmd.to_frame().hl_packet.data)
        frs = split_message(rng, int(cls.header), body, rng.randrange(4), fixed_cuts=cutlist)
        stream = b"".join(frs)
        cuts = sorted(set(rng.randrange(1, len(stream)) for _ in range(rng.randrange(0, 3))))
        scen.append((stream, cuts, [(cls, kw, cmd)], len(frs)))
        chk.count("huge_fragment_messages")
    for _ in range(400 if thorough else 80):
        msgs = []
        stream = b""
        nfrag = 0
        for _ in range(rng.randrange(1, 5)):
            cls = rng.choice(big if rng.random() < 0.7 else small)
            for _ in range(20):
                try:
                    kw = W.gen_assignment(rng, cls)
                    if cls is c.APS.DataIndication.Ind:
                        n = rng.choice([0, 5, 230, 247, 248, 300, 500, 700])
                        kw["Payload"] = type(kw["Payload"])([rng.randrange(256) for _ in range(n)])
                    cmd = cls(**kw)
                    break
                except Exception:
                    continue
            body = bytes(cmd.to_frame().hl_packet.data)
            interrupted = rng.random() < 0.25
            frs = split_message(rng, int(cls.header), body, rng.randrange(4), drop_last=interrupted, own_tx=rng.random() < 0.3)
            complete = not (interrupted and len(split_message.__defaults__) >= 0 and len(frs) >= 1 and not (frs[-1][5] & 0x80))
            nfrag = max(nfrag, len(frs))
            stream += b"".join(frs)
            if frs[-1][5] & 0x80:
                msgs.append((cls, kw, cmd))
        cuts = sorted(set(rng.randrange(1, max(2, len(stream))) for _ in range(rng.randrange(0, 6))))
        scen.append((stream, cuts, msgs, nfrag))
    mouts = model.batch(["reasm %s" % hexs(s) for s, _, _, _ in scen])
    tie_bad = mon_bad = None
    for (stream, cuts, msgs, nfrag), mo in zip(scen, mouts):
        got, pending = run_impl(stream, cuts, classes)
        chk.note_case((stream, tuple(cuts)), nontrivial=nfrag > 1)
        chk.count("msgs_%d" % len(msgs))
        # monitor: exactly the complete messages, in order, each equal to the original command
        want = [m[2] for m in msgs]
        # an interrupted sequence followed by nothing delivers nothing for it; messages whose last fragment is present
        # but whose earlier ones belonged to a dropped sequence are not generated here
        ok = len(got) == len(want) and all(g == w_ for g, w_ in zip(got, want))
        if not ok and mon_bad is None:
            mon_bad = (hexs(stream)[:200], cuts, [type(g).__qualname__ for g in got], [type(w_).__qualname__ for w_ in want])
            chk.violation("delivered commands differ from the messages that were split: got %d (%s), sent %d (%s)"
                          % (len(got), [type(g).__qualname__ for g in got][:4], len(want), [type(w_).__qualname__ for w_ in want][:4]),
                          {"stream": hexs(stream), "cuts": cuts, "sent": [W.kw_text(m[0], m[1]) for m in msgs],
                           "got": [W.assignment_text(type(g), g) for g in got]}, key=None)
        # tie: model messages -> from_body -> assignment text
        parts = mo.split(" // ")[0]
        mm = [x for x in parts.split(";") if x.startswith("M:")]
        dl = []
        for x in mm:
            _, h, d = x.split(":")
            name = next((cl.__qualname__ for cl in classes if int(cl.header) == int(h)), None)
            if name is not None:
                dl.append("cmddec %d %s" % (table[name], d))
        dec = model.batch(dl) if dl else []
        impl_txt = ["A " + W.assignment_text(type(g), g) for g in got]
        if dec != impl_txt and tie_bad is None:
            tie_bad = (hexs(stream)[:120], cuts, impl_txt[:2], dec[:2])
    chk.oblige("tieB:uart+api-reassembly-vs-model(%d scenarios)" % len(scen), tie_bad is None, json.dumps(tie_bad)[:300] if tie_bad else "")
    chk.oblige("monitor:delivered==sent", mon_bad is None, json.dumps(mon_bad)[:300] if mon_bad else "")
    if tie_bad and not mon_bad:
        from common import BuildBroken
        chk.broken.append(BuildBroken("correspondence", "reassembly differs from the model", json.dumps(tie_bad)))
    chk.sample({"stream_len": len(scen[0][0]), "cuts": scen[0][1], "messages": [m[0].__qualname__ for m in scen[0][2]], "model": mouts[0][:150]})
    chk.assumptions = ["listeners observe commands through register_indication_listener; asyncio under a virtual clock"]
    return chk.finish()


def replay(path):
    print(open(path).read()[:3000])
    return 0
