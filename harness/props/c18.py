"""C18 - packets and bind requests cross the radio boundary faithfully, both ways.

Proofs: coq/Radio/RadioProofs.v over the model coq/Radio/Radio.v (send_packet_req, apsde_to_packet,
next_sequence, bind_req / unbind_req), extracted as the sub-model "radio".

Tie B: the REAL unbound methods ControllerApplication.send_packet / on_apsde_indication / get_sequence and
ZbossZDO.Bind_req / Unbind_req are called with stub `self` objects (no network stack): a stub API whose
request() coroutine records the request object and returns a canned response, a stub packet_received that
records the packet.  The captured request's parameter assignment and its encoded body
(.to_frame().hl_packet.data) are compared with the model's.

Monitor: the statement of the property evaluated directly on the implementation's observation with a small
independent reference (fixed byte offsets of the NCP protocol layout, struct.pack), no model involved.
A model/impl disagreement is a VIOLATION only when the monitor fails on that input too."""
import asyncio
import contextlib
import json
import struct
import types

from common import BuildBroken

# --------------------------------------------------------------------------------------------------
# implementation side
_LOOP = None
_MODS = None


def loop():
    global _LOOP
    if _LOOP is None or _LOOP.is_closed():
        _LOOP = asyncio.new_event_loop()
    return _LOOP


def mods():
    global _MODS
    if _MODS is None:
        import zigpy.types as t
        import zigpy.zdo.types as zdo_t
        from zigpy.exceptions import DeliveryError
        import zigpy_zboss.types as t_zboss
        from zigpy_zboss import commands as c
        from zigpy_zboss.zigbee.application import ControllerApplication
        from zigpy_zboss.zigbee.device import ZbossZDO
        from zigpy_zboss.types import commands as tc
        _MODS = types.SimpleNamespace(t=t, zdo_t=zdo_t, DeliveryError=DeliveryError, t_zboss=t_zboss, c=c,
                                      App=ControllerApplication, ZDO=ZbossZDO, tc=tc)
    return _MODS


def stub(cls, **attrs):
    """An instance of (a throw-away subclass of) the REAL class, built without __init__, carrying only the attributes
    the handler under test reads: private helper methods the handler may call on `self` resolve as in production."""
    import inspect
    sub = type("Stub" + cls.__name__, (cls,), {})
    obj = object.__new__(sub)
    for k, v in attrs.items():
        try:
            object.__setattr__(obj, k, v)
        except AttributeError:
            setattr(sub, k, staticmethod(v) if inspect.isfunction(v) else v)
    return obj


class RecApi:
    def __init__(self, rsp=None):
        self.reqs = []
        self.rsp = rsp

    async def request(self, req, **kwargs):
        self.reqs.append(req)
        await asyncio.sleep(0)
        return self.rsp


def hx(b):
    b = bytes(b)
    return b.hex() if b else "-"


def unhx(s):
    return b"" if s in ("-", "", None) else bytes.fromhex(s)


def opt(v):
    return "n" if v is None else str(int(v))


MODE_LETTER = {1: "g", 2: "n", 3: "i", 15: "b"}


def show_addr(a):
    """zigpy AddrModeAddress -> model notation."""
    if a is None:
        return "n"
    m = MODE_LETTER.get(int(a.addr_mode), "?%d" % int(a.addr_mode))
    if m == "i":
        return "i:" + hx(a.address.serialize())
    return "%s:%d" % (m, int(a.address))


def run_send(case):
    """-> (observation line in the model's notation, details for the monitor)."""
    M = mods()
    t = M.t
    api = RecApi()
    zdo_calls = []
    entered = []

    async def zcmd(packet):
        zdo_calls.append(packet)

    @contextlib.asynccontextmanager
    async def lim(*a, **k):
        entered.append(1)
        yield

    app = stub(M.App, _api=api if case["connected"] else None, _limit_concurrency=lim,
               _device=types.SimpleNamespace(zdo=types.SimpleNamespace(zboss_specific_cmd=zcmd)))
    mode = {"g": t.AddrMode.Group, "n": t.AddrMode.NWK, "i": t.AddrMode.IEEE, "b": t.AddrMode.Broadcast}[case["dst_mode"]]
    if case["dst_mode"] == "i":
        addr = t.EUI64.deserialize(unhx(case["dst_addr"]))[0]
    else:
        addr = case["dst_addr"]
    typed = case.get("typed", False)

    def ty(cls, v):
        return cls(v) if (typed and v is not None) else v
    data = unhx(case["data"])
    pkt = t.ZigbeePacket(
        src=t.AddrModeAddress(addr_mode=t.AddrMode.NWK, address=0x0000), src_ep=ty(t.uint8_t, case["src_ep"]),
        dst=t.AddrModeAddress(addr_mode=mode, address=addr), dst_ep=ty(t.uint8_t, case["dst_ep"]),
        tsn=ty(t.uint8_t, case["tsn"]), profile_id=ty(t.uint16_t, case["profile"]), cluster_id=ty(t.uint16_t, case["cluster"]),
        data=t.SerializableBytes(data), tx_options=t.TransmitOptions(case["tx_options"]),
        radius=ty(t.uint8_t, case["radius"]))
    det = {"requests": 0, "zdo_calls": 0}
    try:
        loop().run_until_complete(M.App.send_packet(app, pkt))
    except M.DeliveryError:
        return "DISCONNECTED", det
    except ValueError as e:
        det["exception"] = "ValueError: %s" % str(e)[:150]
        return "VALUEERROR", det
    except Exception as e:  # noqa
        det["exception"] = "%s: %s" % (type(e).__name__, str(e)[:150])
        return "EXC:" + type(e).__name__, det
    det["requests"] = len(api.reqs)
    det["zdo_calls"] = len(zdo_calls)
    if zdo_calls and not api.reqs:
        return "ZDO", det
    if len(api.reqs) != 1:
        return "REQS:%d" % len(api.reqs), det
    r = api.reqs[0]
    det["class"] = type(r).__qualname__
    det["is_datareq"] = isinstance(r, M.c.APS.DataReq.Req)
    try:
        enc = bytes(r.to_frame().hl_packet.data)
        line = " ".join([opt(r.TSN), opt(r.ParamLength), opt(r.DataLength), hx(r.DstAddr.serialize()), opt(r.ProfileID),
                         opt(r.ClusterId), opt(r.DstEndpoint), opt(r.SrcEndpoint), opt(r.Radius), opt(r.DstAddrMode),
                         opt(r.TxOptions), opt(r.UseAlias), opt(r.AliasSrcAddr), opt(r.AliasSeqNbr),
                         hx(bytes(r.Payload.serialize()))])
    except Exception as e:  # noqa
        det["exception"] = "%s: %s" % (type(e).__name__, str(e)[:150])
        return "EXC:" + type(e).__name__, det
    det["enc"] = enc
    return "REQ " + line + " ENC " + hx(enc), det


def send_model_line(case):
    return "send %d %s %s %s %s %d %d %d %s %d %s" % (
        1 if case["connected"] else 0, opt(case["src_ep"]), case["dst_mode"], case["dst_addr"], opt(case["dst_ep"]),
        case["tsn"], case["profile"], case["cluster"], case["data"] or "-", case["tx_options"], opt(case["radius"]))


def send_in_scope(case):
    """The packets the property quantifies over: well-typed, handed to a connected radio, no endpoint 0
    (those are rerouted to the ZDO handler and are not data requests)."""
    return (case["connected"] and case["src_ep"] != 0 and case["dst_ep"] != 0 and
            (case["src_ep"] or 0) < 256 and (case["dst_ep"] or 0) < 256 and case["tsn"] < 256 and
            case["profile"] < 65536 and case["cluster"] < 65536 and (case["radius"] or 0) < 256 and
            len(unhx(case["data"])) < 65536 and
            (case["dst_mode"] == "i" or case["dst_addr"] < 65536))


def send_monitor(case, obs, det):
    if not send_in_scope(case):
        return None
    if not obs.startswith("REQ "):
        return "packet not turned into one data request: %s %s" % (obs, det.get("exception", ""))
    if not det.get("is_datareq"):
        return "request is %s, not APS.DataReq.Req" % det.get("class")
    enc = det["enc"]
    data = unhx(case["data"])
    if len(enc) < 25:
        return "encoded request shorter than its fixed part: %s" % hx(enc)
    if enc[25:] != data:
        return "payload bytes changed: sent %s, request carries %s" % (hx(data), hx(enc[25:]))
    if struct.unpack("<H", enc[2:4])[0] != len(data):
        return "DataLength %d for a payload of %d bytes" % (struct.unpack("<H", enc[2:4])[0], len(data))
    if enc[1] != 21:
        return "ParamLength %d, not 21" % enc[1]
    if enc[0] != case["tsn"]:
        return "TSN %d, packet has %d" % (enc[0], case["tsn"])
    if struct.unpack("<H", enc[12:14])[0] != case["profile"]:
        return "profile %d, packet has %d" % (struct.unpack("<H", enc[12:14])[0], case["profile"])
    if struct.unpack("<H", enc[14:16])[0] != case["cluster"]:
        return "cluster %d, packet has %d" % (struct.unpack("<H", enc[14:16])[0], case["cluster"])
    if enc[16] != (case["dst_ep"] or 0):
        return "destination endpoint %d, packet has %s" % (enc[16], case["dst_ep"])
    if enc[17] != (case["src_ep"] or 0):
        return "source endpoint %d, packet has %s" % (enc[17], case["src_ep"])
    if case["dst_mode"] == "i":
        want = unhx(case["dst_addr"])
    else:
        want = struct.pack("<H", case["dst_addr"]) + bytes(6)
    if enc[4:12] != want:
        return "destination bytes %s, expected %s for mode %s" % (hx(enc[4:12]), hx(want), case["dst_mode"])
    want_mode = {"n": 2, "g": 1, "i": 3}.get(case["dst_mode"])
    if want_mode is not None and enc[19] != want_mode:
        return "destination address mode %d, packet has %d" % (enc[19], want_mode)
    o = enc[20]
    if bool(o & 0x04) != bool(case["tx_options"] & 1):
        return "acknowledgement option not preserved: packet options %d, TxOptions 0x%02x" % (case["tx_options"], o)
    if bool(o & 0x01) != bool(case["tx_options"] & 2):
        return "encryption option not preserved: packet options %d, TxOptions 0x%02x" % (case["tx_options"], o)
    if o & ~0x05:
        return "transmit option invented: packet options %d, TxOptions 0x%02x" % (case["tx_options"], o)
    return None


# -- indications
def run_ind(case):
    M = mods()
    t, tz, c = M.t, M.t_zboss, M.c
    got = []
    app = stub(M.App, state=types.SimpleNamespace(node_info=types.SimpleNamespace(nwk=t.NWK(case["own"]))),
               packet_received=got.append)
    ind = c.APS.DataIndication.Ind(
        ParamLength=21, PayloadLength=case["payload_length"], FrameFC=tz.APSFrameFC(case["fc"]), SrcAddr=t.NWK(case["src"]),
        DstAddr=t.NWK(case["dst"]), GrpAddr=t.NWK(case["grp"]), DstEndpoint=case["dst_ep"], SrcEndpoint=case["src_ep"],
        ClusterId=case["cluster"], ProfileId=case["profile"], PacketCounter=case["pcount"], SrcMACAddr=t.NWK(case["src_mac"]),
        DstMACAddr=t.NWK(case["dst_mac"]), LQI=case["lqi"], RSSI=case["rssi"], KeySrcAndAttr=tz.ApsAttributes(case["key_attr"]),
        Payload=tz.Payload(unhx(case["payload"])))
    if case.get("via_wire", True):
        # as the API delivers it: decoded from its wire form
        ind = c.APS.DataIndication.Ind.from_frame(ind.to_frame())
    det = {"packets": 0}
    try:
        M.App.on_apsde_indication(app, ind)
    except IndexError:
        return "INDEXERROR", det
    except Exception as e:  # noqa
        det["exception"] = "%s: %s" % (type(e).__name__, str(e)[:150])
        return "EXC:" + type(e).__name__, det
    det["packets"] = len(got)
    if len(got) != 1:
        return "PKTS:%d" % len(got), det
    p = got[0]
    det["pkt"] = p
    try:
        line = " ".join(["PKT", show_addr(p.src), opt(p.src_ep), show_addr(p.dst), opt(p.dst_ep), opt(p.tsn), opt(p.profile_id),
                         opt(p.cluster_id), hx(p.data.serialize()), str(p.tx_options.value), opt(p.radius), opt(p.lqi),
                         opt(p.rssi)])
    except Exception as e:  # noqa
        det["exception"] = "%s: %s" % (type(e).__name__, str(e)[:150])
        return "EXC:" + type(e).__name__, det
    return line, det


def ind_model_line(case):
    return "ind %d %d %d %d %d %d %d %d %d %d %d %d %d %d %d %d %s" % (
        case["own"], case["payload_length"], case["fc"], case["src"], case["dst"], case["grp"], case["dst_ep"], case["src_ep"],
        case["cluster"], case["profile"], case["pcount"], case["src_mac"], case["dst_mac"], case["lqi"], case["rssi"],
        case["key_attr"], case["payload"] or "-")


def ind_monitor(case, obs, det):
    payload = unhx(case["payload"])
    if len(payload) < 2:
        return None          # the property speaks of indications carrying at least two bytes
    if "pkt" not in det:
        return "indication not delivered as one packet: %s %s" % (obs, det.get("exception", ""))
    p = det["pkt"]
    M = mods()
    t = M.t
    if p.src is None or p.src.addr_mode != t.AddrMode.NWK or int(p.src.address) != case["src"]:
        return "source %s, indication has NWK 0x%04x" % (show_addr(p.src), case["src"])
    if p.src_ep is None or int(p.src_ep) != case["src_ep"]:
        return "source endpoint %s, indication has %d" % (p.src_ep, case["src_ep"])
    if p.dst_ep is None or int(p.dst_ep) != case["dst_ep"]:
        return "destination endpoint %s, indication has %d" % (p.dst_ep, case["dst_ep"])
    if int(p.cluster_id) != case["cluster"]:
        return "cluster %s, indication has %d" % (p.cluster_id, case["cluster"])
    if int(p.profile_id) != case["profile"]:
        return "profile %s, indication has %d" % (p.profile_id, case["profile"])
    if p.lqi is None or int(p.lqi) != case["lqi"]:
        return "link quality %s, indication has %d" % (p.lqi, case["lqi"])
    want = payload[:case["payload_length"]]
    if bytes(p.data.serialize()) != want:
        return "data %s, expected the first %d payload bytes %s" % (hx(p.data.serialize()), case["payload_length"], hx(want))
    fc = case["fc"]
    kind = "b" if fc & 0x04 else ("g" if fc & 0x08 else "n")
    got = MODE_LETTER.get(int(p.dst.addr_mode)) if p.dst is not None else None
    if got != kind:
        return "frame control 0x%02x delivered as %s, expected %s" % (fc, {"b": "broadcast", "g": "group", "n": "unicast"}.get(got, got),
                                                                    {"b": "broadcast", "g": "group", "n": "unicast"}[kind])
    if kind == "g" and int(p.dst.address) != case["grp"]:
        return "group address 0x%04x, indication has 0x%04x" % (int(p.dst.address), case["grp"])
    return None


# -- sequence numbers
def run_seq(case):
    M = mods()
    s = stub(M.App, _send_sequence=case["start"])
    try:
        v = M.App.get_sequence(s)
    except Exception as e:  # noqa
        return "EXC:" + type(e).__name__, {}
    return str(int(v)), {"value": int(v), "state": int(s._send_sequence)}


def seq_monitor(case, obs, det):
    if "value" not in det:
        return "get_sequence failed: %s" % obs
    if det["value"] == 255 or not (0 <= det["value"] < 255):
        return "sequence number %d issued (counter was %d)" % (det["value"], case["start"])
    return None


# -- bind / unbind
def make_multi(case):
    M = mods()
    t = M.t
    dst = M.zdo_t.MultiAddress()
    dst.addrmode = t.uint8_t(case["mode"])
    if case["ma_nwk"] is not None:
        dst.nwk = t.uint16_t(case["ma_nwk"])
    if case["ma_ieee"] is not None:
        dst.ieee = t.EUI64.deserialize(unhx(case["ma_ieee"]))[0]
    if case["ma_ep"] is not None:
        dst.endpoint = t.uint8_t(case["ma_ep"])
    return dst


def run_bind(case, cmd=None):
    M = mods()
    t, c, tc = M.t, M.c, M.tc
    cmd = cmd or case["cmd"]
    cls = c.ZDO.BindReq if cmd == "bind" else c.ZDO.UnbindReq
    rsp = cls.Rsp(TSN=case["tsn"], StatusCat=tc.StatusCategory.ZDO if case["status"] else tc.StatusCategory.GENERIC,
                  StatusCode=tc.StatusCodeGeneric(case["status"]))
    api = RecApi(rsp)
    appl = types.SimpleNamespace(_api=api, get_sequence=lambda: case["tsn"])
    zdo = stub(M.ZDO, _device=types.SimpleNamespace(_application=appl, nwk=t.NWK(case["dev_nwk"]),
                                                    ieee=t.EUI64.deserialize(unhx(case.get("dev_ieee", "0102030405060708")))[0]),
               log=lambda *a, **k: None)
    meth = M.ZDO.Bind_req if cmd == "bind" else M.ZDO.Unbind_req
    dst = make_multi(case)
    eui = t.EUI64.deserialize(unhx(case["eui"]))[0]
    det = {"requests": 0}
    try:
        if case.get("via") == "request":
            # the generic entry point: zdo.request(ZDOCmd.Bind_req / Unbind_req, ...) dispatches to the handlers
            import zigpy.zdo.types as zdo_t
            zcmd = zdo_t.ZDOCmd.Bind_req if cmd == "bind" else zdo_t.ZDOCmd.Unbind_req
            coro = M.ZDO.request(zdo, zcmd, eui, t.uint8_t(case["ep"]), t.uint16_t(case["cluster"]), dst)
        else:
            coro = meth(zdo, eui, t.uint8_t(case["ep"]), t.uint16_t(case["cluster"]), dst)
        res = loop().run_until_complete(coro)
    except Exception as e:  # noqa
        det["exception"] = "%s: %s" % (type(e).__name__, str(e)[:200])
        det["requests"] = len(api.reqs)
        return "RAISE", det
    det["requests"] = len(api.reqs)
    if len(api.reqs) != 1:
        return "REQS:%d" % len(api.reqs), det
    r = api.reqs[0]
    name = "bind" if isinstance(r, c.ZDO.BindReq.Req) else ("unbind" if isinstance(r, c.ZDO.UnbindReq.Req) else type(r).__qualname__)
    det["cmd"] = name
    enc = bytes(r.to_frame().hl_packet.data)
    det["enc"] = enc
    det["ret"] = res
    line = " ".join([name, opt(r.TSN), opt(r.TargetNwkAddr), hx(r.SrcIEEE.serialize()), opt(r.SrcEndpoint), opt(r.ClusterId),
                     opt(r.DstAddrMode), hx(r.DstAddr.serialize()), opt(r.DstEndpoint)])
    return "REQ " + line + " RET %d" % int(res[0]) + " ENC " + hx(enc), det


def bind_model_line(case):
    return "%s %d %d %s %d %d %d %s %s %s %d" % (
        case["cmd"], case["tsn"], case["dev_nwk"], case["eui"], case["ep"], case["cluster"], case["mode"], opt(case["ma_nwk"]),
        case["ma_ieee"] if case["ma_ieee"] is not None else "n", opt(case["ma_ep"]), case["status"])


def bind_in_scope(case):
    if case["mode"] == 3:
        return case["ma_ieee"] is not None and len(unhx(case["ma_ieee"])) == 8
    if case["mode"] == 1:
        return case["ma_nwk"] is not None
    return False


def bind_class(case):
    k = "%s:%s" % (case["cmd"], {3: "ieee", 1: "group"}.get(case["mode"], "mode%d" % case["mode"]))
    if case["mode"] == 1 and case["ma_ep"] is None:
        k += ":endpoint-none"
    return k


def bind_monitor(case, obs, det):
    if not bind_in_scope(case):
        return None
    what = "%s request with a %s destination" % (case["cmd"], "64-bit" if case["mode"] == 3 else "group")
    if not obs.startswith("REQ "):
        return "%s not forwarded: %s %s" % (what, obs, det.get("exception", ""))
    if det["cmd"] != case["cmd"]:
        return "%s sent as %s" % (what, det["cmd"])
    enc = det["enc"]
    if len(enc) != 24:
        return "%s: encoded body of %d bytes" % (what, len(enc))
    if enc[3:11] != unhx(case["eui"]):
        return "%s: source address %s, given %s" % (what, hx(enc[3:11]), case["eui"])
    if enc[11] != case["ep"]:
        return "%s: source endpoint %d, given %d" % (what, enc[11], case["ep"])
    if struct.unpack("<H", enc[12:14])[0] != case["cluster"]:
        return "%s: cluster %d, given %d" % (what, struct.unpack("<H", enc[12:14])[0], case["cluster"])
    if case["mode"] == 3:
        want_mode, want = 3, unhx(case["ma_ieee"])
    else:
        want_mode, want = 1, struct.pack("<H", case["ma_nwk"]) + bytes(6)
    if enc[14] != want_mode:
        return "%s: destination address mode %d, expected %d" % (what, enc[14], want_mode)
    if enc[15:23] != want:
        return "%s: destination %s, given %s" % (what, hx(enc[15:23]), hx(want))
    if case["mode"] == 3 and case["ma_ep"] is not None and enc[23] != case["ma_ep"]:
        return "%s: destination endpoint %d, given %d" % (what, enc[23], case["ma_ep"])
    # bind and unbind encoded alike apart from the command
    other = "unbind" if case["cmd"] == "bind" else "bind"
    obs2, det2 = run_bind(case, cmd=other)
    if det2.get("cmd") is not None and det2["cmd"] != other:
        return "%s request (the same arguments%s) sent as %s" % (other, ", through zdo.request()" if case.get("via") == "request" else "", det2["cmd"])
    if "enc" in det2 and det2["enc"] != enc:
        return "bind and unbind encode the same request differently: %s=%s %s=%s" % (case["cmd"], hx(enc), other, hx(det2["enc"]))
    return None


KINDS = {
    "send": (run_send, send_model_line, send_monitor),
    "ind": (run_ind, ind_model_line, ind_monitor),
    "seq": (run_seq, lambda c: "seq %d" % c["start"], seq_monitor),
    "bind": (run_bind, bind_model_line, bind_monitor),
}


def observe(case):
    run_f, _, mon_f = KINDS[case["kind"]]
    obs, det = run_f(case)
    return obs, mon_f(case, obs, det)


def case_key(case):
    k = case["kind"]
    if k == "send":
        return "send:dst-mode=%s" % case["dst_mode"]
    if k == "ind":
        return "ind:broadcast=%d,group=%d" % (1 if case["fc"] & 4 else 0, 1 if case["fc"] & 8 else 0)
    if k == "seq":
        return "seq"
    return bind_class(case)


# --------------------------------------------------------------------------------------------------
# shrinking: simplify one field at a time while the monitor still fails
SIMPLE = {
    "send": {"src_ep": [1], "dst_ep": [1], "tsn": [1, 0], "profile": [260, 0], "cluster": [6, 0], "tx_options": [0, 1, 2, 4],
             "radius": [0], "typed": [False], "dst_addr": [0x1234]},
    "ind": {"own": [0], "src": [0x1234], "dst": [0], "grp": [0x5566, 0], "dst_ep": [1], "src_ep": [1], "cluster": [6], "profile": [260],
            "pcount": [0], "src_mac": [0], "dst_mac": [0], "lqi": [255, 0], "rssi": [0], "key_attr": [0], "via_wire": [False]},
    "seq": {},
    "bind": {"tsn": [1], "dev_nwk": [0x1234], "ep": [1], "cluster": [6], "status": [0], "ma_ep": [1], "ma_nwk": [0x1234],
             "eui": ["0102030405060708"], "ma_ieee": ["1112131415161718"]},
}


def shrink(case):
    def fails(c):
        try:
            return observe(c)[1] is not None
        except Exception:  # noqa
            return False
    cur = dict(case)
    if not fails(cur):
        return cur
    # byte strings first
    for f in ("data", "payload"):
        if f not in cur:
            continue
        b = unhx(cur[f])
        for n in (2, 3, 4, 8, 16, 32):
            if n >= len(b):
                break
            cands = [dict(cur, **{f: hx(b[:n])})]
            if f == "payload":
                cands = [dict(cands[0], payload_length=pl) for pl in (cur["payload_length"], n, n - 1)]
            hit = next((c for c in cands if fails(c)), None)
            if hit is not None:
                cur = hit
                break
        b = unhx(cur[f])
        cand = dict(cur, **{f: hx(bytes((i + 1) & 0xFF for i in range(len(b))))})
        if fails(cand):
            cur = cand
    for f, vals in SIMPLE[cur["kind"]].items():
        if f not in cur or cur[f] is None:
            continue
        if cur["kind"] == "send" and f == "dst_addr" and cur["dst_mode"] == "i":
            vals = ["1112131415161718"]
        if cur["kind"] == "send" and f == "dst_addr" and cur["dst_mode"] == "b":
            vals = [0xFFFD]
        for v in vals:
            if cur[f] == v:
                break
            cand = dict(cur)
            cand[f] = v
            if fails(cand):
                cur = cand
                break
    if cur["kind"] == "ind":
        for bit in (0x80, 0x40, 0x20, 0x10, 0x02, 0x01, 0x08, 0x04):
            if cur["fc"] & bit:
                cand = dict(cur)
                cand["fc"] = cur["fc"] & ~bit
                if fails(cand):
                    cur = cand
    return cur


# --------------------------------------------------------------------------------------------------
# generators
B8 = [0, 1, 2, 0x7F, 0x80, 0xFE, 0xFF]
B16 = [0, 1, 0xFF, 0x100, 0x0104, 0x7FFF, 0x8000, 0xFFFE, 0xFFFF,
       # identifiers that mean something to zigpy / Zigbee (profiles HA, ZLL, SE, GreenPower; clusters touchlink, OTA, basic)
       0xC05E, 0x0109, 0xA1E0, 0x1000, 0x0019, 0x0021, 0x0006]
BCAST = [0xFFFF, 0xFFFD, 0xFFFC, 0xFFFB]


def pick(rng, bnd, hi):
    return rng.choice(bnd) if rng.random() < 0.3 else rng.randrange(hi)


def rbytes(rng, n):
    return bytes(rng.randrange(256) for _ in range(n))


def gen_send(rng):
    mode = rng.choice("ngbi")
    if mode == "i":
        addr = hx(rng.choice([bytes(8), bytes([0xFF] * 8), bytes(range(1, 9))]) if rng.random() < 0.15 else rbytes(rng, 8))
    elif mode == "b":
        addr = rng.choice(BCAST) if rng.random() < 0.8 else rng.randrange(0xFFF8, 0x10000)
    else:
        addr = pick(rng, B16, 0x10000)
    r = rng.random()
    n = rng.randrange(2, 201) if r < 0.9 else rng.choice([0, 1, 2, 200, 201, 247, 248, 255, 256, 300, 1000])

    def ep():
        x = rng.random()
        return None if x < 0.04 else (0 if x < 0.08 else (rng.choice([1, 2, 0x7F, 0x80, 0xF0, 0xFE, 0xFF]) if x < 0.35 else rng.randrange(1, 256)))
    return {"kind": "send", "connected": rng.random() > 0.02, "src_ep": ep(), "dst_mode": mode, "dst_addr": addr, "dst_ep": ep(),
            "tsn": pick(rng, B8, 256), "profile": pick(rng, B16, 0x10000), "cluster": pick(rng, B16, 0x10000),
            "data": hx(rbytes(rng, n)), "tx_options": rng.randrange(8),
            "radius": None if rng.random() < 0.05 else pick(rng, B8, 256), "typed": rng.random() < 0.5}


def directed_send():
    out = []
    base = {"kind": "send", "connected": True, "src_ep": 1, "dst_mode": "n", "dst_addr": 0x1234, "dst_ep": 2, "tsn": 7, "profile": 260,
            "cluster": 6, "data": "010203", "tx_options": 0, "radius": 30, "typed": False}
    for mode, addrs in (("n", B16), ("g", B16), ("b", BCAST + [0xFFF8]), ("i", ["0011223344556677", "ffffffffffffffff", "0000000000000000"])):
        for a in addrs:
            for o in range(8):
                c = dict(base)
                c.update(dst_mode=mode, dst_addr=a, tx_options=o)
                out.append(c)
    # values outside the parameter types: the constructor must refuse (tie only)
    for f, v in (("tsn", 256), ("src_ep", 256), ("dst_ep", 300), ("profile", 65536), ("cluster", 70000), ("radius", 256)):
        c = dict(base)
        c[f] = v
        out.append(c)
    c = dict(base)
    c["connected"] = False
    out.append(c)
    for se, de in ((0, 1), (1, 0), (0, 0), (None, 1), (1, None), (None, None)):
        c = dict(base)
        c.update(src_ep=se, dst_ep=de)
        out.append(c)
    return out


def gen_ind(rng, fc=None):
    r = rng.random()
    n = rng.randrange(2, 201) if r < 0.92 else rng.choice([0, 1, 2, 3, 247, 300])
    x = rng.random()
    if x < 0.4:
        pl = n
    elif x < 0.7:
        pl = rng.randrange(0, n + 1)
    elif x < 0.9:
        pl = n + rng.randrange(1, 50)
    else:
        pl = rng.choice([0, 1, 2, 0xFFFF])
    return {"kind": "ind", "own": pick(rng, B16, 0x10000), "payload_length": pl, "fc": rng.randrange(256) if fc is None else fc,
            "src": pick(rng, B16, 0x10000), "dst": pick(rng, B16, 0x10000), "grp": pick(rng, B16, 0x10000),
            "dst_ep": pick(rng, B8, 256), "src_ep": pick(rng, B8, 256), "cluster": pick(rng, B16, 0x10000),
            "profile": pick(rng, B16, 0x10000), "pcount": rng.randrange(256), "src_mac": rng.randrange(0x10000),
            "dst_mac": rng.randrange(0x10000), "lqi": pick(rng, B8, 256), "rssi": rng.randrange(-128, 128),
            "key_attr": rng.randrange(256), "payload": hx(rbytes(rng, n)), "via_wire": rng.random() < 0.7}


def gen_bind(rng):
    x = rng.random()
    if x < 0.45:
        mode, nwk, ieee = 3, None, hx(rbytes(rng, 8))
        epd = pick(rng, B8, 256)
    elif x < 0.9:
        mode, nwk, ieee = 1, pick(rng, B16, 0x10000), None
        epd = None if rng.random() < 0.6 else pick(rng, B8, 256)
    else:
        # unsupported / malformed destinations: tie only
        mode = rng.choice([2, 0, 4, 3, 1])
        nwk = rng.randrange(0x10000) if mode in (2, 4) else None
        ieee = None
        epd = None
    st = 0 if rng.random() < 0.5 else rng.choice([1, 0x80, 0x84, 0x88, 0x8C, 0xFE, 0xFF, rng.randrange(1, 256)])
    return {"kind": "bind", "cmd": "bind", "tsn": rng.randrange(255), "dev_nwk": pick(rng, B16, 0x10000), "eui": hx(rbytes(rng, 8)),
            "ep": pick(rng, B8, 256), "cluster": pick(rng, B16, 0x10000), "mode": mode, "ma_nwk": nwk, "ma_ieee": ieee, "ma_ep": epd,
            "status": st, "via": "request" if rng.random() < 0.4 else "direct"}


# --------------------------------------------------------------------------------------------------
# extraction cross-check: a sample evaluated inside coqc with vm_compute
def coq_list(b):
    return "[" + "; ".join(str(x) for x in b) + "]"


def coq_opt(v):
    return "None" if v is None else "(Some %d)" % v


def kernel_terms(cases):
    terms, idx = [], []
    for i, c in enumerate(cases):
        if c["kind"] == "send":
            if c["dst_mode"] == "i":
                dst = "ZIeee %s" % coq_list(unhx(c["dst_addr"]))
            else:
                dst = "%s %d" % ({"n": "ZNwk", "g": "ZGroup", "b": "ZBroadcast"}[c["dst_mode"]], c["dst_addr"])
            p = ("{| p_src := None; p_src_ep := %s; p_dst := %s; p_dst_ep := %s; p_tsn := %d; p_profile := %d; p_cluster := %d; "
                 "p_data := %s; p_tx_options := %d; p_radius := %s; p_lqi := None; p_rssi := None |}"
                 % (coq_opt(c["src_ep"]), dst, coq_opt(c["dst_ep"]), c["tsn"], c["profile"], c["cluster"],
                    coq_list(unhx(c["data"])), c["tx_options"], coq_opt(c["radius"])))
            terms.append("match send_packet_req %s %s with SReq r => encode_data_req r | _ => [] end"
                         % ("true" if c["connected"] else "false", p))
            idx.append(i)
        elif c["kind"] == "bind":
            dst = ("{| ma_mode := %d; ma_nwk := %s; ma_ieee := %s; ma_endpoint := %s |}"
                   % (c["mode"], coq_opt(c["ma_nwk"]), "None" if c["ma_ieee"] is None else "(Some %s)" % coq_list(unhx(c["ma_ieee"])),
                      coq_opt(c["ma_ep"])))
            terms.append("match %s_req %d %d %s %d %d %s %d with BReq _ r s => s :: encode_bind r | BRaise => [] end"
                         % (c["cmd"], c["tsn"], c["dev_nwk"], coq_list(unhx(c["eui"])), c["ep"], c["cluster"], dst, c["status"]))
            idx.append(i)
        elif c["kind"] == "seq":
            terms.append("[next_sequence %d]" % c["start"])
            idx.append(i)
    return terms, idx


def kernel_sample(chk, cases, mouts):
    from common import coq_eval
    pre = ("From Coq Require Import NArith ZArith List. Import ListNotations. Open Scope N_scope.\n"
           "From ZB Require Import Base.Bytes Radio.Radio.")
    terms, idx = kernel_terms(cases)
    try:
        res = coq_eval(chk.pid, (pre, terms))
    except BuildBroken as b:
        chk.oblige("extraction-vs-kernel", False, str(b))
        chk.broken.append(b)
        return
    ok = len(res) == len(terms)
    bad = ""
    for r, i in zip(res, idx):
        vals = [int(x) for x in r.strip("[] ").replace(";", " ").split()] if r.strip() != "[]" else []
        c, mo = cases[i], mouts[i]
        if c["kind"] == "seq":
            exp = [int(mo)]
        elif " ENC " in mo:
            exp = list(unhx(mo.split(" ENC ")[1]))
            if c["kind"] == "bind":
                exp = [int(mo.split(" RET ")[1].split()[0])] + exp
        else:
            exp = []
        if vals != exp:
            ok, bad = False, "%s: kernel %s, extracted %s" % (json.dumps(c), vals, exp)
            break
    chk.oblige("extraction-vs-kernel(vm_compute sample of %d)" % len(terms), ok, bad[:300])
    if not ok:
        chk.broken.append(BuildBroken("extraction", "extracted radio model disagrees with in-kernel evaluation", bad))


# --------------------------------------------------------------------------------------------------
def run(chk):
    chk.build(["consts"], engine="radio")
    rng = chk.rng
    thorough = chk.tier == "thorough"
    k = 10 if thorough else 1
    chk.rule = ("send: random ZigbeePackets over the 4 addressing modes x boundary/random addresses, endpoints (incl. None and 0), "
                "cluster/profile/TSN boundaries, payload 2..200 bytes (+0,1,247..1000), all 8 option combinations, typed/untyped "
                "fields + directed mode x address x option grid + out-of-type values; ind: all 256 frame-control values x "
                "PayloadLength </=/> payload size, decoded from the wire form; seq: every stored counter 0..600 + a 1000-call chain "
                "+ random large counters; bind: bind and unbind x IEEE / group (with and without endpoint attribute) / unsupported "
                "modes x success / failure status.  non-trivial = an in-scope case (a data request is produced / >= 2 payload "
                "bytes / IEEE or group destination); distinct by the whole case")
    model = getattr(chk, "model", None)
    if model is None:
        return chk.finish()
    mods()
    cases = []
    cases += directed_send()
    cases += [gen_send(rng) for _ in range(2500 * k)]
    for fc in range(256):
        for _ in range(3 * k):
            cases.append(gen_ind(rng, fc))
    cases += [gen_ind(rng) for _ in range(1500 * k)]
    cases += [{"kind": "seq", "start": n} for n in range(0, 601)]
    cases += [{"kind": "seq", "start": rng.randrange(1 << rng.randrange(9, 40))} for _ in range(200 * k)]
    for _ in range(700 * k):
        b = gen_bind(rng)
        u = dict(b)
        u["cmd"] = "unbind"
        cases += [b, u]
    # directed bind grid
    for cmd in ("bind", "unbind"):
        for st in (0, 0x84):
            cases.append({"kind": "bind", "cmd": cmd, "tsn": 42, "dev_nwk": 0x9999, "eui": "1100ffeeddccbbaa", "ep": 3, "cluster": 6,
                          "mode": 3, "ma_nwk": None, "ma_ieee": "7766554433221100", "ma_ep": 5, "status": st})
            cases.append({"kind": "bind", "cmd": cmd, "tsn": 42, "dev_nwk": 0x9999, "eui": "1100ffeeddccbbaa", "ep": 3, "cluster": 6,
                          "mode": 1, "ma_nwk": 0x1234, "ma_ieee": None, "ma_ep": None, "status": st})
            cases.append({"kind": "bind", "cmd": cmd, "tsn": 42, "dev_nwk": 0x9999, "eui": "1100ffeeddccbbaa", "ep": 3, "cluster": 6,
                          "mode": 1, "ma_nwk": 0x1234, "ma_ieee": None, "ma_ep": 0, "status": st})

    mouts = model.batch([KINDS[c["kind"]][1](c) for c in cases])

    # the sequence chain: the real generator started at 0, every issued number fed back
    M = mods()
    chain = stub(M.App, _send_sequence=0)
    chain_bad = None
    seen = set()
    for i in range(1000 * k):
        before = chain._send_sequence
        v = M.App.get_sequence(chain)
        seen.add(int(v))
        if int(v) == 255 or not (0 <= int(v) < 255) or int(v) != int(chain._send_sequence):
            chain_bad = chain_bad or {"kind": "seq", "start": int(before)}
    chk.count("seq_chain_calls", 1000 * k)
    chk.extra["seq_chain_distinct_values"] = len(seen)

    tie_bad = {}
    mon_bad = {}
    reported = set()
    for c, mo in zip(cases, mouts):
        kind = c["kind"]
        run_f, _, mon_f = KINDS[kind]
        try:
            obs, det = run_f(c)
            mon = mon_f(c, obs, det)
        except Exception as e:  # noqa  (harness-level failure: never silently passes)
            obs, mon = "HARNESS-EXC:%s:%s" % (type(e).__name__, str(e)[:100]), None
        if kind == "send":
            nt = send_in_scope(c)
            chk.count("send_mode_%s" % c["dst_mode"])
            chk.count("send_outcome_%s" % obs.split()[0].split(":")[0])
            n = len(unhx(c["data"]))
            chk.count("send_payload_%s" % ("<2" if n < 2 else "2..200" if n <= 200 else ">200"))
        elif kind == "ind":
            nt = len(unhx(c["payload"])) >= 2
            n = len(unhx(c["payload"]))
            chk.count("ind_kind_%s" % ("broadcast" if c["fc"] & 4 else "group" if c["fc"] & 8 else "unicast"))
            chk.count("ind_paylen_%s" % ("eq" if c["payload_length"] == n else "lt" if c["payload_length"] < n else "gt"))
            if c["fc"] & 4 and c["fc"] & 8:
                chk.count("ind_both_broadcast_and_group_bits")
        elif kind == "seq":
            nt = True
            chk.count("seq")
        else:
            nt = bind_in_scope(c)
            chk.count("bind_%s_%s" % (bind_class(c).replace(":", "_"), "ok" if c["status"] == 0 else "fail"))
        chk.note_case(c, nontrivial=nt)
        if obs != mo and kind not in tie_bad:
            tie_bad[kind] = (c, obs, mo)
        if mon is not None:
            key = case_key(c)
            mon_bad.setdefault(kind, (c, mon))
            if key not in reported:
                reported.add(key)
                small = shrink(c)
                o2, m2 = observe(small)
                mo2 = model.batch([KINDS[kind][1](small)])[0]
                chk.violation(m2 or mon, {"case": small, "impl": o2, "model": mo2, "monitor": m2 or mon, "found_as": c}, key=key)
    if chain_bad is not None and "seq" not in reported:
        o2, m2 = observe(chain_bad)
        chk.violation(m2 or "sequence chain issued 255", {"case": chain_bad, "impl": o2, "monitor": m2}, key="seq")
        mon_bad.setdefault("seq", (chain_bad, m2))

    names = {"send": "send_packet->APS.DataReq", "ind": "on_apsde_indication->ZigbeePacket", "seq": "get_sequence",
             "bind": "Bind_req/Unbind_req->ZDO.BindReq/UnbindReq"}
    for kind in ("send", "ind", "seq", "bind"):
        n = sum(1 for c in cases if c["kind"] == kind)
        tb = tie_bad.get(kind)
        chk.oblige("tieB:%s-vs-model(%d cases)" % (names[kind], n), tb is None, json.dumps(tb)[:300] if tb else "")
        mb = mon_bad.get(kind)
        chk.oblige("monitor:%s" % names[kind], mb is None, json.dumps(mb)[:300] if mb else "")
        if tb and not mb:
            chk.broken.append(BuildBroken("correspondence", "%s differs from the model" % names[kind],
                                          json.dumps({"case": tb[0], "impl": tb[1], "model": tb[2]})))
    # extraction guard
    samp = [i for i, c in enumerate(cases) if c["kind"] in ("send", "bind", "seq")]
    rng.shuffle(samp)
    samp = sorted(samp[:120])
    kernel_sample(chk, [cases[i] for i in samp], [mouts[i] for i in samp])

    for kind in ("send", "ind", "bind"):
        for c, mo in zip(cases, mouts):
            if c["kind"] == kind and (mo.startswith("REQ") or mo.startswith("PKT")):
                cc = dict(c)
                for f in ("data", "payload"):
                    if f in cc and len(cc[f]) > 40:
                        cc[f] = cc[f][:40] + "...(%d bytes)" % (len(c[f]) // 2)
                chk.sample({"case": cc, "model_and_impl": mo[:260]})
                break
    chk.exhaustive = False
    chk.extra["exhaustive_parts"] = ["all 256 frame-control values", "every stored sequence counter 0..600",
                                     "all 8 packet option combinations x each addressing mode x boundary addresses"]
    chk.assumptions = [
        "zigpy ZigbeePacket / AddrModeAddress / MultiAddress field access, zigpy's _limit_concurrency (stubbed by a no-op async "
        "context manager) and ZDO.deserialize are outside the model",
        "packets with endpoint 0 are rerouted to ZbossZDO.zboss_specific_cmd (not a data request): compared with the model's ZDO "
        "outcome, not constrained by the property",
        "bind/unbind with NWK or other address modes (unsupported by the NCP; the handlers fail) are compared with the model's "
        "RAISE outcome only; the status returned on failure (StatusCode % 0xFF) is compared with the model, not constrained",
    ]
    return chk.finish()


def replay(path):
    r = json.load(open(path))
    print(json.dumps(r, indent=1)[:3000])
    payload = r.get("case", {})
    case = payload.get("case") if isinstance(payload, dict) else None
    if not case:
        return 0
    from common import Model
    obs, mon = observe(case)
    try:
        mo = Model("radio").batch([KINDS[case["kind"]][1](case)])[0]
    except Exception as e:  # noqa
        mo = "model driver unavailable: %s" % e
    print("impl   : %s" % obs)
    print("model  : %s" % mo)
    print("monitor: %s" % (mon or "holds"))
    return 1 if mon is not None else 0
