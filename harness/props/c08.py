"""C08 - packet sequence numbers advance 0,1,2,3,1,2,3.. exactly on matching ACKs.

Proof: coq/Link/TxSeqProofs.v.  Tie B: histories over {send, ACK(0..3), ACK-wait expiry, incoming data
frame, close+reconnect} driven through the real ZbossNcpProtocol under a virtual-time asyncio loop;
observation: every byte sequence written and the final sequence state; monitor: the stamped flags
and header checksum of every written data frame checked with the spec decoder and the 0,1,2,3,1..
rule computed independently from the history."""
import asyncio
import itertools
import json

from common import hexs
import access as X


def run_history(evs, glue=False):
    """evs: list of tuples. Returns (writes hex list, final seq).
    glue: consecutive incoming frames (ACKs, data frames) arrive in ONE read - one data_received call with their bytes
    concatenated - instead of one read each; what the numbering does must not depend on how the bytes are chunked."""
    from vloop import VLoop, Wire
    import zigpy_zboss.config as conf
    import zigpy_zboss.types as t
    from zigpy_zboss import uart as U
    from zigpy_zboss.frames import Frame, HLPacket, LLHeader
    from impl_link import build_frame_bytes
    loop = VLoop()
    asyncio.set_event_loop(loop)
    try:
        cfg = conf.CONFIG_SCHEMA({conf.CONF_DEVICE: {conf.CONF_DEVICE_PATH: "/dev/null"}})

        class Api:
            def frame_received(self, f):
                pass

            def connection_lost(self, e):
                pass
        proto = U.ZbossNcpProtocol(cfg[conf.CONF_DEVICE], Api())
        w = Wire()
        proto.connection_made(w)
        writes = []
        tasks = []
        outstanding = False
        pend = bytearray()

        def flush():
            if pend:
                proto.data_received(bytes(pend))
                del pend[:]
                loop.settle()
        for ev in evs:
            if ev[0] not in ("a", "d"):
                flush()
            if ev[0] == "s":
                if outstanding:
                    loop.advance(U.ACK_TIMEOUT + 0.001)
                h, d = ev[1], ev[2]
                hl = HLPacket(t.HLCommonHeader(h), t.Bytes(d))
                ll = (LLHeader().with_signature(Frame.signature).with_size(hl.length + 5)
                      .with_type(t.TYPE_ZBOSS_NCP_API_HL).with_flags(t.LLFlags.LastFrag | t.LLFlags.FirstFrag)
                      # whatever the checksum field held before (a frame that was decoded, or stamped earlier), stamping replaces it
                      .with_crc8((ev[1] * 0x9E + 0x5B) & 0xFF))
                tasks.append(loop.create_task(proto.send(Frame(ll, hl))))
                outstanding = True
                loop.settle()
            elif ev[0] == "a":
                pend += build_frame_bytes(None, b"", 1 | (ev[1] << 4))
                if not glue:
                    flush()
            elif ev[0] == "x":
                loop.advance(U.ACK_TIMEOUT + 0.001)
                outstanding = False
            elif ev[0] == "d":
                pend += build_frame_bytes(0x00070000, b"\x09", 0xC0 | (ev[1] << 2))
                if not glue:
                    flush()
            elif ev[0] == "r":
                # the library's own "a deliberate reset is in progress" mark (public setter; ZBOSS.reset() sets it before it
                # sends the reset request): closing the link resets the numbering whether or not it is set
                proto.reset_flag = True
            elif ev[0] == "c":
                loop.advance(U.ACK_TIMEOUT + 0.001)
                outstanding = False
                proto.close()
                writes += [bytes(x).hex() for x in w.log]
                w = Wire()
                proto.connection_made(w)
                loop.settle()
        flush()
        loop.advance(U.ACK_TIMEOUT + 0.001)
        writes += [bytes(x).hex() for x in w.log]
        for tk in tasks:
            if not tk.done():
                tk.cancel()
        loop.settle()
        return writes, X.pget(proto, "pack_seq")
    finally:
        asyncio.set_event_loop(None)
        loop.close()


def model_line(evs):
    toks = []
    for ev in evs:
        if ev[0] == "r":
            continue            # the reset mark is not an event of the numbering model: it must change nothing
        if ev[0] == "s":
            toks.append("s:%d:%s" % (ev[1], hexs(ev[2])))
        elif ev[0] in ("a", "d"):
            toks.append("%s:%d" % (ev[0], ev[1]))
        else:
            toks.append(ev[0])
    return "txseq 0 " + " ".join(toks)


def reference(evs):
    """The rule of the property, computed from the history alone (no model, no impl)."""
    m = 0
    seqs = []
    def so(m): return 0 if m == 0 else (m - 1) % 3 + 1
    for ev in evs:
        if ev[0] == "s":
            seqs.append(so(m))
        elif ev[0] == "a" and ev[1] == so(m):
            m += 1
        elif ev[0] == "c":
            m = 0
    return seqs, so(m)


def gen_history(rng, depth):
    evs = []
    for _ in range(depth):
        r = rng.random()
        if r < 0.34:
            evs.append(("s", rng.randrange(1, 1 << 32), bytes(rng.randrange(256) for _ in range(rng.randrange(0, 6)))))
        elif r < 0.74:
            evs.append(("a", rng.randrange(4)))
        elif r < 0.82:
            evs.append(("x",))
        elif r < 0.93:
            evs.append(("d", rng.randrange(4)))
        else:
            if rng.random() < 0.4:
                evs.append(("r",))
            evs.append(("c",))
    return evs


def check_one(chk, model_out, evs, glue=False):
    writes, seq = run_history(evs, glue)
    impl = ";".join(w if w else "-" for w in writes) + " // seq=%d" % seq
    ref_seqs, ref_final = reference(evs)
    # monitor on impl alone: data frames written carry the reference numbers, valid crc8 (spec decoder)
    data_writes = [w for w in writes if not (bytes.fromhex(w)[5] & 1)]
    mon = None
    if len(data_writes) != len(ref_seqs):
        mon = "%d data frames written for %d sends" % (len(data_writes), len(ref_seqs))
    else:
        dec = chk.model.batch(["specdec %s" % w for w in data_writes]) if data_writes else []
        for w, d, q in zip(data_writes, dec, ref_seqs):
            if d == "NONE":
                mon = "written frame is not well-formed (header checksum for the stamped flags?): %s" % w
                break
            fl = int(d.split(",")[1])
            if (fl >> 2) & 3 != q:
                mon = "frame stamped with sequence %d, expected %d: %s" % ((fl >> 2) & 3, q, w)
                break
    if mon is None and seq != ref_final:
        mon = "final sequence state %d, expected %d" % (seq, ref_final)
    return impl, mon


def run_overlap(evs):
    """Like run_history but sends may overlap: ("q", h, d) issues a send WITHOUT waiting for the previous one (it queues
    on the transmit lock and is written when its turn comes).  Returns the merged trace: the events, with every data
    frame written inserted as ("w", hex) at the point where it was written, and the final sequence state."""
    from vloop import VLoop, Wire
    import zigpy_zboss.config as conf
    import zigpy_zboss.types as t
    from zigpy_zboss import uart as U
    from zigpy_zboss.frames import Frame, HLPacket, LLHeader
    from impl_link import build_frame_bytes
    loop = VLoop()
    asyncio.set_event_loop(loop)
    try:
        cfg = conf.CONFIG_SCHEMA({conf.CONF_DEVICE: {conf.CONF_DEVICE_PATH: "/dev/null"}})

        class Api:
            def frame_received(self, f):
                pass

            def connection_lost(self, e):
                pass
        proto = U.ZbossNcpProtocol(cfg[conf.CONF_DEVICE], Api())
        w = Wire()
        proto.connection_made(w)
        trace, tasks = [], []
        pos = [0]

        def collect():
            while pos[0] < len(w.log):
                b = bytes(w.log[pos[0]])
                pos[0] += 1
                if not (len(b) == 7 and b[5] & 1):
                    trace.append(("w", b.hex()))
        for ev in evs:
            if ev[0] == "q":
                hl = HLPacket(t.HLCommonHeader(ev[1]), t.Bytes(ev[2]))
                ll = (LLHeader().with_signature(Frame.signature).with_size(hl.length + 5)
                      .with_type(t.TYPE_ZBOSS_NCP_API_HL).with_flags(t.LLFlags.LastFrag | t.LLFlags.FirstFrag)
                      # whatever the checksum field held before (a frame that was decoded, or stamped earlier), stamping replaces it
                      .with_crc8((ev[1] * 0x9E + 0x5B) & 0xFF))
                tasks.append(loop.create_task(proto.send(Frame(ll, hl))))
                loop.settle()
                collect()
                continue
            trace.append(ev)
            if ev[0] == "a":
                proto.data_received(build_frame_bytes(None, b"", 1 | (ev[1] << 4)))
                loop.settle()
            elif ev[0] == "x":
                loop.advance(U.ACK_TIMEOUT + 0.001)
            elif ev[0] == "d":
                proto.data_received(build_frame_bytes(0x00070000, b"\x09", 0xC0 | (ev[1] << 2)))
                loop.settle()
            collect()
        for _ in range(len(tasks) + 1):
            trace.append(("x",))
            loop.advance(U.ACK_TIMEOUT + 0.001)
            collect()
        for tk in tasks:
            if not tk.done():
                tk.cancel()
        loop.settle()
        return trace, X.pget(proto, "pack_seq")
    finally:
        asyncio.set_event_loop(None)
        loop.close()


def check_overlap(chk, evs):
    """Monitor + tie for overlapping sends: every data frame carries the number that is current WHEN IT IS WRITTEN."""
    trace, seq = run_overlap(evs)
    pending = [(e[1], e[2]) for e in evs if e[0] == "q"]
    m = 0
    def so(m): return 0 if m == 0 else (m - 1) % 3 + 1
    toks, mon, k = [], None, 0
    ws = [e[1] for e in trace if e[0] == "w"]
    dec = chk.model.batch(["specdec %s" % x for x in ws]) if ws else []
    for e in trace:
        if e[0] == "w":
            d = dec[k]
            if k < len(pending):
                toks.append("s:%d:%s" % (pending[k][0], hexs(pending[k][1])))
            if d == "NONE":
                mon = mon or "written frame is not well-formed (header checksum for the stamped flags?): %s" % e[1]
            elif (int(d.split(",")[1]) >> 2) & 3 != so(m):
                mon = mon or ("data frame %d written while the current number is %d but stamped %d: %s"
                              % (k, so(m), (int(d.split(",")[1]) >> 2) & 3, e[1]))
            k += 1
        elif e[0] == "a":
            toks.append("a:%d" % e[1])
            if e[1] == so(m):
                m += 1
        elif e[0] == "d":
            toks.append("d:%d" % e[1])
        else:
            toks.append("x")
    if mon is None and len(ws) != len(pending):
        mon = "%d data frames written for %d sends" % (len(ws), len(pending))
    if mon is None and seq != so(m):
        mon = "final sequence state %d, expected %d" % (seq, so(m))
    mo = chk.model.batch(["txseq 0 " + " ".join(toks)])[0]
    impl = ";".join(ws) + " // seq=%d" % seq
    mo_data = ";".join(x for x in mo.split(" // ")[0].split(";") if x and not (bytes.fromhex(x)[5] & 1)) + " // " + mo.split(" // ")[1]
    return impl, mo_data, mon


def gen_overlap(rng):
    evs = []
    for _ in range(rng.randrange(3, 12)):
        r = rng.random()
        if r < 0.45:
            evs.append(("q", rng.randrange(1, 1 << 32), bytes(rng.randrange(256) for _ in range(rng.randrange(0, 6)))))
        elif r < 0.85:
            evs.append(("a", rng.randrange(4)))
        elif r < 0.93:
            evs.append(("x",))
        else:
            evs.append(("d", rng.randrange(4)))
    return evs


def ev_json(evs):
    return [[e[0]] + [hexs(x) if isinstance(x, bytes) else x for x in e[1:]] for e in evs]


def run(chk):
    chk.build(["consts", "tables"])
    rng = chk.rng
    thorough = chk.tier == "thorough"
    chk.rule = ("histories over {send, ACK(0..3), expiry, data-in(0..3), close+reconnect}: all histories of depth <=%d over the "
                "8-letter alphabet (payload-free letters) + random histories of depth 6..14; non-trivial = at least one send "
                "and one matching ACK; distinct by history" % (5 if thorough else 4))
    if getattr(chk, "model", None) is None:
        return chk.finish()
    alpha = [("s", 0x00010000, b"\x01"), ("a", 0), ("a", 1), ("a", 2), ("a", 3), ("x",), ("d", 2), ("c",)]
    hist = []
    for dpt in range(1, (5 if thorough else 4) + 1):
        for combo in itertools.product(alpha, repeat=dpt):
            hist.append(list(combo))
    for _ in range(1500 if thorough else 250):
        hist.append(gen_history(rng, rng.randrange(6, 15)))
    # close + reconnect while the reset mark is set (what a deliberate NCP reset does), at every numbering state
    S_ = ("s", 0x00010000, b"\x01")
    for k in range(0, 5):
        pre = []
        for q in ([0, 1, 2, 3, 1][:k]):
            pre += [S_, ("a", q)]
        hist.append(pre + [("r",), ("c",), S_, ("a", 0), S_])
        hist.append(pre + [S_, ("r",), ("c",), S_, ("a", 0), S_])
        hist.append(pre + [("r",), S_, ("a", [0, 1, 2, 3, 1, 2][k]), ("c",), S_])
    mouts = chk.model.batch([model_line(e) for e in hist])
    tie_bad = mon_bad = glue_tie = glue_mon = None
    for evs, mo in zip(hist, mouts):
        impl, mon = check_one(chk, mo, evs)
        nsend = sum(1 for e in evs if e[0] == "s")
        chk.note_case(ev_json(evs), nontrivial=nsend > 0 and any(e[0] == "a" for e in evs))
        chk.count("depth_%s" % ("<=5" if len(evs) <= 5 else ">5"))
        if impl != mo and tie_bad is None:
            tie_bad = (ev_json(evs), impl, mo)
        if mon is not None and mon_bad is None:
            mon_bad = (ev_json(evs), mon)
            # shrink: drop events while the monitor still fails
            cur = list(evs)
            changed = True
            while changed:
                changed = False
                for i in range(len(cur)):
                    cand = cur[:i] + cur[i + 1:]
                    if cand and check_one(chk, None, cand)[1] is not None:
                        cur, changed = cand, True
                        break
            chk.violation(check_one(chk, None, cur)[1], {"history": ev_json(cur)}, key=None)
        # the same history with consecutive incoming frames arriving in ONE read
        if any(a[0] in ("a", "d") and b[0] in ("a", "d") for a, b in zip(evs, evs[1:])):
            gimpl, gmon = check_one(chk, mo, evs, glue=True)
            chk.count("glued_reads")
            chk.evaluations += 1
            if gimpl != mo and glue_tie is None:
                glue_tie = (ev_json(evs), gimpl, mo)
            if gmon is not None and glue_mon is None:
                glue_mon = (ev_json(evs), gmon)
                cur = list(evs)
                changed = True
                while changed:
                    changed = False
                    for i in range(len(cur)):
                        cand = cur[:i] + cur[i + 1:]
                        if cand and check_one(chk, None, cand, glue=True)[1] is not None:
                            cur, changed = cand, True
                            break
                chk.violation("with consecutive incoming frames delivered in ONE read: " + check_one(chk, None, cur, glue=True)[1],
                              {"history": ev_json(cur), "one_read_for_consecutive_incoming_frames": True}, key=None)
    # overlapping sends (a send issued while another is outstanding queues and is written later): the number stamped
    # must be the one current when the frame is WRITTEN
    ov = [[("q", 0x00010000, b"\x01"), ("q", 0x00020000, b"\x02"), ("a", 0), ("a", 1)],
          [("q", 0x00010000, b"\x01"), ("q", 0x00020000, b"\x02"), ("q", 0x00030000, b""), ("a", 0), ("x",), ("a", 1), ("a", 1)],
          [("q", 1 << 16, b""), ("a", 0), ("q", 2 << 16, b""), ("q", 3 << 16, b""), ("a", 1), ("a", 2), ("q", 4 << 16, b""), ("q", 5 << 16, b""), ("a", 3), ("a", 1)]]
    ov += [gen_overlap(rng) for _ in range(600 if thorough else 120)]
    ov_tie = ov_mon = None
    for evs in ov:
        impl, mo, mon = check_overlap(chk, evs)
        chk.note_case(("overlap", ev_json(evs)), nontrivial=sum(1 for e in evs if e[0] == "q") > 1)
        chk.count("overlap_histories")
        if impl != mo and ov_tie is None:
            ov_tie = (ev_json(evs), impl, mo)
        if mon is not None and ov_mon is None:
            ov_mon = (ev_json(evs), mon)
            cur = list(evs)
            changed = True
            while changed:
                changed = False
                for i in range(len(cur)):
                    cand = cur[:i] + cur[i + 1:]
                    if cand and check_overlap(chk, cand)[2] is not None:
                        cur, changed = cand, True
                        break
            chk.violation(check_overlap(chk, cur)[2], {"history_overlapping_sends": ev_json(cur)}, key=None)
    # every single-frame length in every numbering state: the stamped header checksum is valid for the stamped flags
    sw_bad = None
    n_sw = 0
    for start in range(4):
        # reach state `start` (0 fresh; 1,2,3 after that many matching ACKs), then send frames of every length
        pre = []
        for q in range(start):
            pre += [("s", 0x00010000, b""), ("a", q)]
        for lo in range(0, 244, 61):
            evs = list(pre)
            m = start
            for ln in range(lo, min(lo + 61, 244)):
                evs += [("s", 0x00020000 + ln, bytes([ln & 0xFF]) * ln), ("a", 0 if m == 0 else (m - 1) % 3 + 1)]
                m += 1
            writes, _ = run_history(evs)
            data = [w for w in writes if not (bytes.fromhex(w)[5] & 1)]
            dec = chk.model.batch(["specdec %s" % w for w in data])
            n_sw += len(data)
            for w, d in zip(data, dec):
                if d == "NONE" and sw_bad is None:
                    sw_bad = w
    chk.count("stamp_sweep_frames", n_sw)
    chk.evaluations += n_sw
    chk.oblige("monitor:stamped-header-checksum-valid(every frame length x numbering state: %d frames)" % n_sw, sw_bad is None, sw_bad or "")
    if sw_bad:
        b = bytes.fromhex(sw_bad)
        chk.violation("a stamped frame of length field %d, flags 0x%02x carries header checksum 0x%02x, which is not the CRC-8 of its "
                      "length/type/flags bytes: %s" % (b[2] | (b[3] << 8), b[5], b[6], sw_bad[:40]), {"frame": sw_bad}, key="stamp-crc8")
    # the SAME command object sent again and again (to_frame() each time, as api.request does): every transmission is
    # stamped with the number current at that moment, whatever earlier transmissions of that object carried
    rs_bad = None
    try:
        import zigpy_zboss.commands as _c
        from vloop import VLoop, Wire
        import zigpy_zboss.config as conf
        from zigpy_zboss import uart as U
        from impl_link import build_frame_bytes
        for cmd in (_c.NcpConfig.GetModuleVersion.Req(TSN=7), _c.NcpConfig.GetZigbeeRole.Req(TSN=1)):
            loop = VLoop()
            asyncio.set_event_loop(loop)
            try:
                cfg = conf.CONFIG_SCHEMA({conf.CONF_DEVICE: {conf.CONF_DEVICE_PATH: "/dev/null"}})

                class Api:
                    def frame_received(self, f):
                        pass

                    def connection_lost(self, e):
                        pass
                proto = U.ZbossNcpProtocol(cfg[conf.CONF_DEVICE], Api())
                w = Wire()
                proto.connection_made(w)
                m = 0
                for k in range(8):
                    want = 0 if m == 0 else (m - 1) % 3 + 1
                    for fr in cmd.to_frame().handle_tx_fragmentation():
                        loop.create_task(proto.send(fr))
                        loop.settle()
                    b = bytes(w.log[-1])
                    d = chk.model.batch(["specdec %s" % b.hex()])[0]
                    chk.evaluations += 1
                    if d == "NONE" or int(d[2:].split(",")[1]) != (0xC0 | (want << 2)):
                        rs_bad = rs_bad or (type(cmd).__qualname__, k, want, b.hex(), d)
                    if k == 5:      # close + reconnect in the middle: numbering restarts at 0
                        loop.advance(U.ACK_TIMEOUT + 0.001)
                        proto.close()
                        w = Wire()
                        proto.connection_made(w)
                        m = 0
                        continue
                    proto.data_received(build_frame_bytes(None, b"", 1 | (want << 4)))
                    loop.settle()
                    m += 1
            finally:
                asyncio.set_event_loop(None)
                loop.close()
    except Exception as e:  # noqa
        rs_bad = rs_bad or ("harness", -1, -1, "", "%s: %s" % (type(e).__name__, e))
    chk.oblige("monitor:same-command-object-sent-repeatedly-is-stamped-afresh", rs_bad is None, repr(rs_bad) if rs_bad else "")
    if rs_bad:
        chk.violation("transmission %d of the same %s object should carry packet number %d (flags 0x%02x); on the wire: %s (%s)"
                      % (rs_bad[1] + 1, rs_bad[0], rs_bad[2], 0xC0 | (max(rs_bad[2], 0) << 2), rs_bad[3], rs_bad[4]),
                      {"case": rs_bad}, key="resend-same-object")
    chk.oblige("tieB:overlapping-sends-vs-model(%d histories)" % len(ov), ov_tie is None, json.dumps(ov_tie)[:300] if ov_tie else "")
    chk.oblige("monitor:number-current-at-write-time(overlapping sends)", ov_mon is None, json.dumps(ov_mon)[:300] if ov_mon else "")
    if ov_tie and not ov_mon and not mon_bad:
        from common import BuildBroken
        chk.broken.append(BuildBroken("correspondence", "uart sequence numbering (overlapping sends) differs from the model", json.dumps(ov_tie)))
    chk.oblige("tieB:uart-send/ack/close-vs-model(%d histories)" % len(hist), tie_bad is None, json.dumps(tie_bad)[:300] if tie_bad else "")
    chk.oblige("monitor:sequence-rule+valid-crc8-on-impl-writes", mon_bad is None, json.dumps(mon_bad)[:300] if mon_bad else "")
    chk.oblige("tieB:same-histories-with-consecutive-incoming-frames-in-one-read", glue_tie is None, json.dumps(glue_tie)[:300] if glue_tie else "")
    chk.oblige("monitor:sequence-rule-does-not-depend-on-chunking", glue_mon is None, json.dumps(glue_mon)[:300] if glue_mon else "")
    if glue_tie and not glue_mon and not chk.violations:
        from common import BuildBroken
        chk.broken.append(BuildBroken("correspondence", "numbering differs from the model when incoming frames share a read", json.dumps(glue_tie)))
    if tie_bad and not mon_bad:
        from common import BuildBroken
        chk.broken.append(BuildBroken("correspondence", "uart sequence numbering differs from the model", json.dumps(tie_bad)))
    chk.sample({"history": ev_json(hist[-1]), "impl_writes_and_seq": check_one(chk, None, hist[-1])[0][:200]})
    chk.exhaustive = False
    chk.extra["exhaustive_parts"] = ["all histories up to depth %d over the 8-letter alphabet" % (5 if thorough else 4)]
    chk.assumptions = ["asyncio/async_timeout semantics (virtual clock); the exhaustive histories issue sends one at a time; overlapping "
                       "sends are covered by the separate overlapping-sends histories (write order itself is C07's subject)"]
    return chk.finish()


def replay(path):
    r = json.load(open(path))
    print(json.dumps(r, indent=1)[:2000])
    return 0
