"""C01 - serial receive decoding is exact and independent of chunk boundaries.

Proof: coq/Link/RxProofs.v (model = greedy spec parse; chunk independence by the generic resync theory).
Tie B: data_received vs the model on structured streams x chunkings; monitor: spec_parse on prefixes."""
import json

import rx_common as R


def directed(rng):
    from impl_link import build_frame_bytes
    v = build_frame_bytes(0x00010000, b"\x01\x02\x03", 0xC0)
    v2 = build_frame_bytes(0x12345678, b"\xde\xad\x05", 0xC4)
    out = []
    # marker split across reads after noise
    out.append(R.RxCase([("noise", b"\x00" * 6 + b"\xde"), ("valid", v[1:])], [7]))
    out.append(R.RxCase([("noise", b"\x01\x02\x03\x04\x05\x06"), ("valid", v)], [7]))
    # bad-crc8 header announcing a long body followed by a valid frame
    out.append(R.RxCase([("badcrc8-long", b"\xde\xad\xff\x7f\x06\xc0\x00"), ("valid", v)], []))
    # checksum-valid impossible headers followed by valid frames
    for size in range(0, 13):
        for fl in (0x00, 0x40, 0x80, 0xC0, 0x01, 0x41):
            out.append(R.RxCase([("weird-header", R.weird_header(rng, size=size, flags=fl)), ("valid", v), ("valid", v2)], []))
    for fl in (0x40, 0xC0, 0x00, 0x80, 0x01):
        for nb in range(0, 7):
            out.append(R.RxCase([("short-body-valid-crc", R.short_body_frame(rng, fl, nb)), ("valid", v), ("valid", v2)], []))
    # a frame whose start marker is damaged and whose tail is lost, at the head of the buffer (stream start / right after a
    # delivered frame): its self-consistent length field must not hold back the frames that follow
    for k in range(6):
        nh = R.nosig_header(rng, size=rng.choice([40, 120, 250]), keep=rng.choice([7, 9, 16]))
        out.append(R.RxCase([("valid", v), ("damaged-marker-truncated", nh), ("valid", v2)], []))
        out.append(R.RxCase([("damaged-marker-truncated", nh), ("valid", v), ("valid", v2)], [len(nh)] if k % 2 else []))
    # continuation fragment with a corrupted body
    frag = bytearray(build_frame_bytes(None, b"abcdefgh", 0x00))
    frag[-1] ^= 0x10
    out.append(R.RxCase([("corrupt", bytes(frag)), ("valid", v)], []))
    out.append(R.RxCase([("valid", build_frame_bytes(None, b"abcdefgh", 0x80)), ("valid", v)], []))
    return out


def run(chk):
    chk.build(["consts", "tables"])
    chk.rule = ("streams of 1-8 pieces (valid frames of every flag kind, ACKs, noise with embedded marker bytes, corrupted/"
                "truncated/duplicated frames, checksum-valid headers with arbitrary size/flags, bad-crc8 headers announcing "
                "long bodies) x chunkings (whole, bytewise, random k-way, single cuts; every cut in thorough); non-trivial = "
                "at least one frame handed up or an ACK processed; distinct by (stream, cuts, state)")
    if getattr(chk, "model", None) is None:
        return chk.finish()
    n = 1200 if chk.tier == "thorough" else 260
    R.run_rx_campaign(chk, n, directed=directed(chk.rng))
    chk.assumptions = ["the upper layer does not re-enter the protocol object (close()) from frame_received",
                       "bytearray.find / slicing as modelled by list functions"]
    return chk.finish()


def replay(path):
    import common
    r = json.load(open(path))
    print(json.dumps(r, indent=1)[:2500])
    if "case" in r and "pieces" in r["case"]:
        c = R.RxCase.from_json(r["case"])
        m = common.Model()
        print("impl :", c.impl())
        print("model:", m.batch([c.model_line()])[0])
        mon = R.monitor_case(m, c)
        print("monitor:", mon)
        return 1 if mon else 0
    return 0
