"""C11 - any request reaches the NCP intact, fragments contiguous, each awaiting its ACK.

Proof: coq/Api/ApiProofs.v (invariants of the event-driven state machine Api.v, by induction over event histories).
Tie B: scenarios of concurrent requests x NCP events (matching / stale ACKs, responses, silence, cancellation, close,
loss, reset) injected at quiescent points of the REAL ZBOSS + ZbossNcpProtocol pair under a virtual-time asyncio
loop, compared step by step with the extracted model; monitor: the property's trace predicate on the impl log."""
import json

import api_tie as T


def run(chk):
    chk.build(["consts", "schemas", "tables"])
    thorough = chk.tier == "thorough"
    chk.rule = ("online-generated scenarios (4-16 events + closing ticks; focus=frag) over 8 request kinds (blocking / non-blocking, "
                "1-3 fragments) and the events issue, ACK(n), response, data-in, tick, cancel, close, loss, reset begin/end; "
                "non-trivial = at least two requests issued; distinct by event list")
    if getattr(chk, "model", None) is None:
        return chk.finish()
    mons = [("contiguous", T.mon_contiguous)]
    T.campaign(chk, 600 if thorough else 150, "frag", mons)
    T.campaign(chk, 300 if thorough else 60, "mixed", mons)
    # every short history, systematically (depth 4 in the quick tier: 9520 histories; depth 5 in the thorough tier)
    T.exhaustive(chk, 5 if thorough else 4, mons)
    extra(chk, thorough)
    chk.assumptions = ["events are injected at quiescent points of the asyncio loop only (cancellation / I/O landing between two "
                       "loop iterations of one settle is outside the model)", "CPython asyncio Lock/Event/Future and async_timeout "
                       "semantics are modelled by the macro-step semantics of Api.v, not verified"]
    return chk.finish()


def replay(path):
    r = json.load(open(path))
    print(json.dumps(r, indent=1)[:3000])
    c = r.get("case", {})
    if "raw" in c:
        evs = [tuple(e) for e in c["raw"]]
        import common
        print("impl :", T.impl_run(evs))
        print("model:", T.model_run(common.Model(), evs))
    return 0


def random_for(x):
    import random
    return random.Random("c11-size-%d" % x)


def extra(chk, thorough):
    """The NCP's view: the bytes written, parsed and reassembled by the spec (extracted), are exactly the requests."""
    import api_common as A
    from common import hexs
    rng = chk.rng
    bad = None
    for _ in range(60 if thorough else 12):
        kinds = [rng.choice(["nb1", "nb2", "nb3", "b1", "b2"]) for _ in range(rng.randrange(1, 4))]
        r = A.Runner()
        try:
            for i, k in enumerate(kinds):
                r.step(("issue", i + 1, k))
            for _ in range(12):
                x = rng.random()
                if x < 0.7:
                    r.step(("ack", r.cur_seq()))
                elif x < 0.85:
                    r.step(("rsp", rng.choice(kinds)))
                else:
                    r.step(("tick", 1000))
            for _ in range(len(kinds) + 1):       # let every queued request get its turn
                r.step(("tick", 6000))
                for _ in range(3):
                    r.step(("ack", r.cur_seq()))
            wire = b"".join(bytes(x) for x in r.wire.log)
            want = []
            import wire_common as W
            for i, k in enumerate(kinds):
                req, bodies, _ = A.make_request(k, i + 1)
                want.append("M:%d:%s" % (int(req.header), hexs(bytes(req.to_frame().hl_packet.data))))
            got = chk.model.batch(["reasm %s" % hexs(wire)])[0].split(" // ")[0].split(";")
            chk.evaluations += 1
            # each request arrives intact, exactly once; the order across requests is the scheduler's business (C07/C14)
            if sorted(got) != sorted(want) and bad is None:
                bad = (kinds, [g[:40] for g in got], [w[:40] for w in want])
        finally:
            r.close()
    # every request size around the multiples of the fragment size (where the first fragment is shortest / bumped to hold
    # the 4-byte command header), through the real request path: the NCP must reassemble exactly the request
    import zigpy_zboss.commands as c
    import wire_common as W
    sbad = None
    targets = [L for k in (1, 2, 3) for L in range(247 * k - 2, 247 * k + 6)] + [60, 300]
    for L in targets:
        kw = W.gen_assignment(random_for(L), c.APS.DataReq.Req)
        kw["Payload"] = type(kw["Payload"])([])
        kw["DataLength"] = 0
        base = c.APS.DataReq.Req(**kw).to_frame().hl_packet.length - 2
        n = L - base
        if n < 0:
            continue
        prng = random_for(L + 7)
        kw["Payload"] = type(kw["Payload"])([prng.randrange(256) for _ in range(n)])
        kw["DataLength"] = n
        req = c.APS.DataReq.Req(**kw)
        want = "M:%d:%s" % (int(req.header), hexs(bytes(req.to_frame().hl_packet.data)))
        r = A.Runner()
        try:
            task = r.loop.create_task(r.api.request(req, timeout=5))
            r.loop.settle()
            for _ in range(8):
                if task.done():
                    break
                r.step(("ack", r.cur_seq()))
            wire = b"".join(bytes(x) for x in r.wire.log)
            writes_ = list(r.wire.log)
            if not task.done():
                task.cancel()
                r.loop.settle()
        finally:
            r.close()
        got = chk.model.batch(["reasm %s" % hexs(wire)])[0].split(" // ")[0].split(";")
        chk.evaluations += 1
        chk.count("request_size_sweep")
        if got != [want] and sbad is None:
            sbad = (L, n, [g[:60] for g in got], want[:60], len(want))
        # "check every ... length": an NCP that follows the link protocol takes at most 247 body bytes per frame
        too_long = [len(bytes(x)) - 9 for x in writes_ if not (len(bytes(x)) == 7 and bytes(x)[5] & 1) and len(bytes(x)) - 9 > 247]
        if too_long and sbad is None:
            sbad = (L, n, ["a data frame with a body of %d bytes (the link protocol's maximum is 247)" % too_long[0]], want[:60], len(want))
    # the same, many requests one after the other on ONE link (the numbering state and whatever the link layer remembers
    # from earlier frames carry over): every frame written is well-formed by the independent decoder, and the NCP
    # reassembles exactly the requests, in order
    lbad = None
    for order in ([741 + 2, 494 + 3, 30, 741 + 5, 300, 988, 494, 60, 988, 247 * 3 + 1, 247 * 2 + 1],
                  [300, 600, 300, 900, 600, 300, 988, 988]):
        r = A.Runner()
        wants = []
        try:
            for L in order:
                kw = W.gen_assignment(random_for(L), c.APS.DataReq.Req)
                kw["Payload"] = type(kw["Payload"])([])
                kw["DataLength"] = 0
                base = c.APS.DataReq.Req(**kw).to_frame().hl_packet.length - 2
                n = max(0, L - base)
                prng = random_for(L + len(wants) * 1000)
                kw["Payload"] = type(kw["Payload"])([prng.randrange(256) for _ in range(n)])
                kw["DataLength"] = n
                req = c.APS.DataReq.Req(**kw)
                wants.append("M:%d:%s" % (int(req.header), hexs(bytes(req.to_frame().hl_packet.data))))
                task = r.loop.create_task(r.api.request(req, timeout=2))
                r.loop.settle()
                for _ in range(8):
                    if task.done():
                        break
                    r.step(("ack", r.cur_seq()))
                r.step(("tick", 2500))          # no response: the request times out, the link is free again
                if not task.done():
                    task.cancel()
                    r.loop.settle()
            frames = [bytes(x) for x in r.wire.log]
        finally:
            r.close()
        dec = chk.model.batch(["specdec %s" % hexs(b) for b in frames])
        chk.evaluations += len(frames)
        chk.count("one_link_frames", len(frames))
        for b, d in zip(frames, dec):
            if (d == "NONE" or not d.endswith(" 0")) and lbad is None:
                lbad = ("frame %s... (length field %d, flags 0x%02x, header checksum 0x%02x) written by the host is not a well-formed "
                        "frame" % (b[:12].hex(), b[2] | (b[3] << 8), b[5], b[6]), order)
        got = chk.model.batch(["reasm %s" % hexs(b"".join(frames))])[0].split(" // ")[0].split(";")
        if got != wants and lbad is None:
            lbad = ("requests of sizes %s sent one after the other on one link: the NCP reassembles %d message(s), %d were sent; "
                    "first difference at message %d" % (order, len(got), len(wants),
                                                        next((i for i, (a, b) in enumerate(zip(got, wants)) if a != b), min(len(got), len(wants)))), order)
    chk.oblige("monitor:many-requests-on-one-link(well-formed frames, reference NCP)", lbad is None, json.dumps(lbad)[:300] if lbad else "")
    if lbad:
        chk.violation(lbad[0], {"hl_sizes": lbad[1]}, key="one-link")
    chk.oblige("monitor:reference-NCP-receives-the-request(all sizes around multiples of the fragment size)", sbad is None,
               json.dumps(sbad)[:300] if sbad else "")
    if sbad:
        chk.violation("a request of %d bytes (payload %d) does not reach a protocol-following NCP intact: it reassembles %s, the "
                      "request is %s... (%d hex digits)" % sbad, {"hl_size": sbad[0], "payload": sbad[1]}, key="ncp-size")
    chk.oblige("monitor:reference-NCP-receives-exactly-the-requests", bad is None, json.dumps(bad)[:300] if bad else "")
    if bad:
        chk.violation("a protocol-following NCP does not receive the requests %s intact: %s vs %s" % bad, {"kinds": bad[0]}, key="ncp-view")
