"""C02 - the receiver is total: no input or handler failure makes it raise or go deaf.

Proof: coq/Link/RxProofs.v (no-raise for all buffers; outputs independent of the handler; probe theorem).
Tie B: checksum-valid impossible headers (every size 0..12 x every flag byte), stale/unsolicited ACKs
in every link state, handler raising at every position, each followed by a probe suffix of valid frames."""
import json

import rx_common as R
from impl_link import build_frame_bytes


def directed(rng, thorough):
    out = []
    probe1 = build_frame_bytes(0x00010100, b"\x11\x22", 0xC0 | (1 << 2))
    probe2 = build_frame_bytes(0x00020200, b"", 0xC0 | (2 << 2))
    flag_bytes = range(256) if thorough else list(range(0, 256, 7)) + [0x40, 0x41, 0x80, 0xC0, 0x01, 0xC1]
    for size in range(0, 13):
        for fl in flag_bytes:
            out.append(R.RxCase([("weird-header", R.weird_header(rng, size=size, flags=fl)), ("valid", probe1), ("valid", probe2)], []))
    # checksum-valid headers with bodies too short for their kind but a valid body checksum (every flag kind x 0..6 body bytes)
    for fl in (0x40, 0xC0, 0x44, 0xCC, 0x00, 0x80, 0x08, 0x01, 0x31, 0x41):
        for nb in range(0, 7):
            out.append(R.RxCase([("short-body-valid-crc", R.short_body_frame(rng, fl, nb)), ("valid", probe1), ("valid", probe2)], []))
            out.append(R.RxCase([("short-body-valid-crc", R.short_body_frame(rng, fl, nb)), ("valid", probe1), ("valid", probe2)], [7, 9]))
    # ACKs for every sequence value in every link state
    for aseq in range(4):
        for ps in range(4):
            for ev in ("n", "0", "1"):
                for opn in (True, False):
                    ack = build_frame_bytes(None, b"", 1 | (aseq << 4))
                    out.append(R.RxCase([("valid", ack), ("valid", ack), ("valid", probe1)], [], pack_seq=ps, ack_event=ev, open_transport=opn))
    # handler raising at every frame position of a 5-frame stream
    frames = [("valid", build_frame_bytes(0x00030000 + i, bytes([i]), 0xC0 | ((i % 4) << 2))) for i in range(5)]
    for k in range(5):
        out.append(R.RxCase(frames, [], raise_at=(k,)))
        out.append(R.RxCase(frames, [9, 40], raise_at=(k, 4)))
    # arbitrary initial buffers (unreachable states included)
    for _ in range(60 if thorough else 20):
        out.append(R.RxCase([("valid", probe1), ("valid", probe2)], [], buf=R.noise(rng, rng.randrange(0, 12))))
    return out


def run(chk):
    chk.build(["consts", "tables"])
    chk.rule = ("directed: checksum-valid headers size 0..12 x flag bytes + probe frames; ACK(0..3) x pack_seq 0..3 x "
                "{no event, event clear, event set} x {transport open, closed}; handler raising at every position; arbitrary "
                "initial buffers; plus random streams with random states and raising handlers; non-trivial = a frame handed up "
                "or an ACK processed")
    if getattr(chk, "model", None) is None:
        return chk.finish()
    thorough = chk.tier == "thorough"
    R.run_rx_campaign(chk, 600 if thorough else 120, focus="weird", states=True, raising=True,
                      directed=directed(chk.rng, thorough))
    chk.assumptions = ["handler failures are modelled as exceptions derived from Exception (what the code catches)",
                       "the upper layer does not re-enter the protocol object from frame_received"]
    return chk.finish()


def replay(path):
    from props import c01
    return c01.replay(path)
