"""C02 - the receiver is total: no input or handler failure makes it raise or go deaf.

Proof: coq/Link/RxProofs.v (no-raise for all buffers; outputs independent of the handler; probe theorem).
Tie B: checksum-valid impossible headers (every size 0..12 x every flag byte), stale/unsolicited ACKs
in every link state, handler raising at every position, each followed by a probe suffix of valid frames."""
import json

import rx_common as R
from impl_link import build_frame_bytes


def directed(rng, thorough):
    out = []
    probe1 = build_frame_bytes(0x00010100, b"\x11\x22", 0xC0 | (1 << 2))
    probe2 = build_frame_bytes(0x00020200, b"", 0xC0 | (2 << 2))
    flag_bytes = range(256) if thorough else list(range(0, 256, 7)) + [0x40, 0x41, 0x80, 0xC0, 0x01, 0xC1]
    for size in range(0, 13):
        for fl in flag_bytes:
            out.append(R.RxCase([("weird-header", R.weird_header(rng, size=size, flags=fl)), ("valid", probe1), ("valid", probe2)], []))
    # checksum-valid headers with bodies too short for their kind but a valid body checksum (every flag kind x 0..6 body bytes)
    for fl in (0x40, 0xC0, 0x44, 0xCC, 0x00, 0x80, 0x08, 0x01, 0x31, 0x41):
        for nb in range(0, 7):
            out.append(R.RxCase([("short-body-valid-crc", R.short_body_frame(rng, fl, nb)), ("valid", probe1), ("valid", probe2)], []))
            out.append(R.RxCase([("short-body-valid-crc", R.short_body_frame(rng, fl, nb)), ("valid", probe1), ("valid", probe2)], [7, 9]))
    # ACKs for every sequence value in every link state
    for aseq in range(4):
        for ps in range(4):
            for ev in ("n", "0", "1"):
                for opn in (True, False):
                    ack = build_frame_bytes(None, b"", 1 | (aseq << 4))
                    out.append(R.RxCase([("valid", ack), ("valid", ack), ("valid", probe1)], [], pack_seq=ps, ack_event=ev, open_transport=opn))
    # handler raising at every frame position of a 5-frame stream
    frames = [("valid", build_frame_bytes(0x00030000 + i, bytes([i]), 0xC0 | ((i % 4) << 2))) for i in range(5)]
    for k in range(5):
        out.append(R.RxCase(frames, [], raise_at=(k,)))
        out.append(R.RxCase(frames, [9, 40], raise_at=(k, 4)))
    # arbitrary initial buffers (unreachable states included)
    for _ in range(60 if thorough else 20):
        out.append(R.RxCase([("valid", probe1), ("valid", probe2)], [], buf=R.noise(rng, rng.randrange(0, 12))))
    return out


def run(chk):
    chk.build(["consts", "tables"])
    chk.rule = ("directed: checksum-valid headers size 0..12 x flag bytes + probe frames; ACK(0..3) x pack_seq 0..3 x "
                "{no event, event clear, event set} x {transport open, closed}; handler raising at every position; arbitrary "
                "initial buffers; plus random streams with random states and raising handlers; non-trivial = a frame handed up "
                "or an ACK processed")
    if getattr(chk, "model", None) is None:
        return chk.finish()
    thorough = chk.tier == "thorough"
    reached_states(chk)          # black box first: it does not depend on any private attribute of the protocol object
    R.run_rx_campaign(chk, 600 if thorough else 120, focus="weird", states=True, raising=True,
                      directed=directed(chk.rng, thorough))
    chk.assumptions = ["handler failures are modelled as exceptions derived from Exception (what the code catches)",
                       "the upper layer does not re-enter the protocol object from frame_received"]
    return chk.finish()


def reached_states(chk):
    """The link states REACHED THROUGH THE PUBLIC INTERFACE (real send() calls under the virtual-time loop) rather than set
    from outside: fresh, a send waiting for its ACK, a send completed by its ACK, a send whose ACK wait expired, a sender
    cancelled, after close() and after close() + reconnect.  In each: ACK(0..3) twice, a stale data frame, then probes -
    the receive entry point never raises and the probes are delivered and acknowledged."""
    import asyncio
    from vloop import VLoop, Wire
    import zigpy_zboss.config as conf
    import zigpy_zboss.types as t
    from zigpy_zboss import uart as U
    from zigpy_zboss.frames import Frame, HLPacket, LLHeader
    bad = None
    n = 0
    states = ["fresh", "pending", "acked", "expired", "cancelled", "closed", "reconnected", "acked-twice"]
    for state in states:
        for aseq in range(4):
            for handler_raises in (False, True):
                loop = VLoop()
                asyncio.set_event_loop(loop)
                got = []
                try:
                    cfg = conf.CONFIG_SCHEMA({conf.CONF_DEVICE: {conf.CONF_DEVICE_PATH: "/dev/null"}})

                    class Api:
                        def frame_received(self, f):
                            got.append(f)
                            if handler_raises:
                                raise RuntimeError("handler failure")

                        def connection_lost(self, e):
                            pass
                    proto = U.ZbossNcpProtocol(cfg[conf.CONF_DEVICE], Api())
                    w = Wire()
                    proto.connection_made(w)

                    def mk(i):
                        hl = HLPacket(t.HLCommonHeader(0x00010000 + (i << 16)), t.Bytes(bytes([i])))
                        ll = LLHeader().with_signature(Frame.signature).with_size(hl.length + 5).with_type(6).with_flags(0xC0)
                        return Frame(ll, hl)

                    def feed(b):
                        # from inside the loop, as the transport does
                        err = []

                        def go():
                            try:
                                proto.data_received(b)
                            except Exception as e:  # noqa
                                err.append(e)
                        loop.call_soon(go)
                        loop.settle()
                        return err[0] if err else None
                    ack = lambda q: build_frame_bytes(None, b"", 1 | (q << 4))   # noqa: E731
                    task = None
                    if state != "fresh":
                        task = loop.create_task(proto.send(mk(1)))
                        loop.settle()
                    if state in ("acked", "acked-twice"):
                        feed(ack(0))
                    if state == "acked-twice":
                        loop.create_task(proto.send(mk(2)))
                        loop.settle()
                        feed(ack(1))
                    if state == "expired":
                        loop.advance(U.ACK_TIMEOUT + 0.01)
                    if state == "cancelled":
                        task.cancel()
                        loop.settle()
                    if state in ("closed", "reconnected"):
                        loop.advance(U.ACK_TIMEOUT + 0.01)
                        proto.close()
                    if state == "reconnected":
                        w = Wire()
                        proto.connection_made(w)
                    n0 = len(w.log)
                    del got[:]
                    stream = [ack(aseq), ack(aseq), build_frame_bytes(0x00990000, b"\x07", 0xC0 | (3 << 2)), ack((aseq + 1) % 4)]
                    probe1 = build_frame_bytes(0x00010100, b"\x11\x22", 0xC0 | (1 << 2))
                    probe2 = build_frame_bytes(0x00020200, b"", 0xC0 | (2 << 2))
                    e1 = feed(b"".join(stream) + probe1)
                    e2 = feed(probe2)
                    n += 1
                    chk.evaluations += 1
                    acks = [bytes(x) for x in w.log[n0:] if len(x) == 7 and x[5] & 1]
                    m = None
                    if e1 is not None or e2 is not None:
                        m = "data_received raised %r" % (e1 or e2)
                    elif len(got) != 3:
                        m = "%d frames handed up, 3 well-formed data frames were received" % len(got)
                    elif state != "closed" and [(a[5] >> 4) & 3 for a in acks] != [3, 1, 2]:
                        m = "acknowledgements written %s, expected for packet numbers [3, 1, 2]" % [(a[5] >> 4) & 3 for a in acks]
                    if m is not None and bad is None:
                        bad = (state, aseq, handler_raises, m)
                finally:
                    asyncio.set_event_loop(None)
                    loop.close()
    chk.count("reached_state_cases", n)
    chk.oblige("monitor:never-raises-never-deaf-in-states-reached-through-send/close(%d)" % n, bad is None, repr(bad) if bad else "")
    if bad:
        chk.violation("link state '%s' (reached through the public interface), ACK(%d) x2 + a data frame + probes, handler %s: %s"
                      % (bad[0], bad[1], "raising" if bad[2] else "ok", bad[3]),
                      {"state": bad[0], "ack_seq": bad[1], "handler_raises": bad[2]}, key="reached:%s" % bad[0])


def replay(path):
    from props import c01
    return c01.replay(path)
