"""C13 - a finished request leaves nothing behind, however it finished.

Proof: coq/Api/ApiProofs.v (invariants of the event-driven state machine Api.v, by induction over event histories).
Tie B: scenarios of concurrent requests x NCP events (matching / stale ACKs, responses, silence, cancellation, close,
loss, reset) injected at quiescent points of the REAL ZBOSS + ZbossNcpProtocol pair under a virtual-time asyncio
loop, compared step by step with the extracted model; monitor: the property's trace predicate on the impl log."""
import json

import api_tie as T


def run(chk):
    chk.build(["consts", "schemas", "tables"])
    thorough = chk.tier == "thorough"
    chk.rule = ("online-generated scenarios (4-16 events + closing ticks; focus=cleanup) over 8 request kinds (blocking / non-blocking, "
                "1-3 fragments) and the events issue, ACK(n), response, data-in, tick, cancel, close, loss, reset begin/end; "
                "non-trivial = at least two requests issued; distinct by event list")
    if getattr(chk, "model", None) is None:
        return chk.finish()
    mons = [("cleanup", T.mon_cleanup), ("delivery", T.mon_delivery), ("cancel", T.mon_cancel)]
    T.campaign(chk, 600 if thorough else 150, "cleanup", mons)
    T.campaign(chk, 300 if thorough else 60, "mixed", mons)
    # every short history, systematically (depth 4 in the quick tier: 9520 histories; depth 5 in the thorough tier)
    T.exhaustive(chk, 5 if thorough else 4, mons)
    extra(chk, thorough)
    chk.assumptions = ["events are injected at quiescent points of the asyncio loop only (cancellation / I/O landing between two "
                       "loop iterations of one settle is outside the model)", "CPython asyncio Lock/Event/Future and async_timeout "
                       "semantics are modelled by the macro-step semantics of Api.v, not verified"]
    return chk.finish()


def replay(path):
    r = json.load(open(path))
    print(json.dumps(r, indent=1)[:3000])
    c = r.get("case", {})
    if "raw" in c:
        evs = [tuple(e) for e in c["raw"]]
        import common
        print("impl :", T.impl_run(evs))
        print("model:", T.model_run(common.Model(), evs))
    return 0


def extra(chk, thorough):
    """Every single cancellation / timeout point of a request x a follow-up request for the same command."""
    import api_common as A
    bad = None
    n = 0
    for kind in ("nb1", "b1", "nb2"):
        prefixes = [[], [("issue", 9, "b1b")], [("issue", 9, "nb3")]]
        for pre in prefixes:
            for how in ("cancel", "timeout", "close_then_new"):
                for point in range(0, 4):
                    evs = list(pre) + [("issue", 1, kind)]
                    for _ in range(point):
                        evs.append(("ack", -1))
                    if how == "cancel":
                        evs.append(("cancel", 1))
                    elif how == "timeout":
                        evs += [("tick", 1000), ("tick", 1000), ("tick", 1000), ("tick", 6000)]
                    else:
                        evs.append(("cancel", 1))
                    # late response for the finished request, then a fresh request which must get ITS response
                    evs += [("tick", 1000), ("tick", 1000), ("tick", 1000), ("tick", 6000), ("rsp", kind), ("issue", 2, kind)]
                    evs += [("ack", -1)] * 3 + [("rsp", kind), ("tick", 6000)]
                    r = A.Runner()
                    try:
                        out = []
                        real_evs = []
                        for e in evs:
                            if e == ("ack", -1):
                                e = ("ack", r.cur_seq())
                            real_evs.append(e)
                            out.append(r.step(e))
                        nl = r.listeners()
                    finally:
                        r.close()
                    n += 1
                    chk.evaluations += 1
                    flat = [x for st in out for x in st]
                    if not any(x.startswith("E:2:R:") for x in flat) or nl != 0 or any(x.endswith(":NONE") for x in flat):
                        bad = bad or (kind, how, point, [str(e) for e in pre], flat[-6:], nl)
                    else:
                        # ... and it is ITS response (the one injected after it was issued), not the late one replayed
                        md = T.mon_delivery(real_evs, [T.canon_step(st) for st in out])
                        if md is not None:
                            bad = bad or (kind, how, point, [str(e) for e in pre], [md], nl)
    # two responses inside ONE read chunk: (a) the responses of two outstanding requests for the same command - each
    # request gets one; (b) a duplicated response - the duplicate is discarded and a follow-up request gets its own
    bad2 = None
    n2 = 0
    for kind in ("nb1", "nb2", "b1"):
        for pre in ([], [("issue", 9, "nb1b")]):
            for variant in ("two-requests", "duplicate"):
                if variant == "two-requests" and kind == "b1":
                    continue       # two blocking requests are never outstanding together
                evs = list(pre) + [("issue", 1, kind)] + ([("issue", 2, kind)] if variant == "two-requests" else [])
                evs += [("ack", -1)] * 6
                evs += [("rsp2", kind, kind)]
                if variant == "duplicate":
                    evs += [("issue", 2, kind)] + [("ack", -1)] * 3 + [("rsp", kind)]
                evs += [("tick", 6000)]
                r = A.Runner()
                try:
                    out = []
                    for e in evs:
                        if e == ("ack", -1):
                            e = ("ack", r.cur_seq())
                        out.append(r.step(e))
                    nl = r.listeners()
                finally:
                    r.close()
                n2 += 1
                chk.evaluations += 1
                flat = [x for st in out for x in st]
                if not (any(x.startswith("E:1:R:") for x in flat) and any(x.startswith("E:2:R:") for x in flat)) or nl != 0:
                    bad2 = bad2 or (kind, variant, [str(e) for e in pre], [x for x in flat if x.startswith("E:")], nl)
    # two requests for the same command outstanding; the LATER one ends first (cancelled while queued / while waiting,
    # or by its own shorter timeout): its clean-up must remove ITS waiter - the earlier request still gets its response
    bad3 = None
    n3 = 0
    # an application callback registered for the same response command BETWEEN two requests: one response still ends
    # exactly one request (the oldest waiting), the next response the next one
    for kind in ("nb1", "b1", "nb2"):
        for acks_before in (0, 3):
            evs = [("issue", 1, kind)] + [("ack", -1)] * acks_before + [("listen", kind), ("issue", 2, kind)] + [("ack", -1)] * 4
            evs += [("rsp", kind)]
            r = A.Runner()
            try:
                out = []
                for e in evs:
                    if e == ("ack", -1):
                        e = ("ack", r.cur_seq())
                    out.append(r.step(e))
                after_first = [x for st in out for x in st if x.startswith("E:")]
                for e in [("ack", -1)] * 3 + [("rsp", kind), ("tick", 6000)]:
                    if e == ("ack", -1):
                        e = ("ack", r.cur_seq())
                    out.append(r.step(e))
                nl = r.listeners()
                ncb = r.callbacks
            finally:
                r.close()
            n2 += 1
            chk.evaluations += 1
            flat = [x for st in out for x in st if x.startswith("E:")]
            ok = (len(after_first) == 1 and after_first[0].startswith("E:1:R:") and any(x.startswith("E:2:R:") for x in flat)
                  and nl == 0 and ncb == 2)
            if not ok:
                bad2 = bad2 or (kind, "callback-between-requests", [], ["after first response: %s" % after_first, "all: %s" % flat,
                                                                    "callback invoked %d times (2 responses)" % ncb], nl)
    later_first = [
        ("nb1", "nb1", [("issue", 1, "nb1"), ("issue", 2, "nb1"), ("ack", -1), ("ack", -1), ("cancel", 2), ("rsp", "nb1"), ("tick", 6000)]),
        ("nb1", "nb1", [("issue", 1, "nb1"), ("issue", 2, "nb1"), ("cancel", 2), ("ack", -1), ("ack", -1), ("rsp", "nb1"), ("tick", 6000)]),
        ("b1", "b1", [("issue", 1, "b1"), ("issue", 2, "b1"), ("cancel", 2), ("ack", -1), ("rsp", "b1"), ("tick", 6000)]),
        ("b1", "b1", [("issue", 1, "b1"), ("ack", -1), ("issue", 2, "b1"), ("cancel", 2), ("rsp", "b1"), ("tick", 6000)]),
        ("nb1", "nb1s", [("issue", 1, "nb1"), ("ack", -1), ("tick", 1000), ("issue", 2, "nb1s"), ("ack", -1), ("tick", 2500), ("rsp", "nb1"), ("tick", 6000)]),
        ("nb2", "nb2", [("issue", 1, "nb2"), ("issue", 2, "nb2"), ("ack", -1), ("ack", -1), ("cancel", 2), ("ack", -1), ("rsp", "nb2"), ("tick", 6000)]),
    ]
    for k1, k2, evs in later_first:
        for pre in ([], [("issue", 9, "nb1b")]):
            r = A.Runner()
            try:
                out = []
                for e in list(pre) + evs:
                    if e == ("ack", -1):
                        e = ("ack", r.cur_seq())
                    out.append(r.step(e))
                nl = r.listeners()
            finally:
                r.close()
            n3 += 1
            chk.evaluations += 1
            flat = [x for st in out for x in st]
            left = nl - (1 if pre else 0) if not any(x.startswith("E:9:") for x in flat) else nl
            if not any(x.startswith("E:1:R:") for x in flat) or left != 0:
                bad3 = bad3 or (k1, k2, [str(e) for e in list(pre) + evs], [x for x in flat if x.startswith("E:")], left)
    chk.oblige("monitor:later-request-ends-first-earlier-still-served(%d scenarios)" % n3, bad3 is None, json.dumps(bad3)[:300] if bad3 else "")
    if bad3:
        chk.violation("two requests for one command, the later one ended first: request 1 did not get its response or a stale "
                      "listener stayed registered (%d): endings %s" % (bad3[4], bad3[3]), {"case": bad3}, key="later-first:%s:%s" % (bad3[0], bad3[1]))
    chk.oblige("monitor:two-responses-in-one-read-chunk(%d scenarios)" % n2, bad2 is None, json.dumps(bad2)[:300] if bad2 else "")
    if bad2:
        chk.violation("two responses in one read chunk (%s, %s): a request did not get its response or a listener stayed "
                      "registered (%d left): endings %s" % (bad2[0], bad2[1], bad2[4], bad2[3]), {"case": bad2},
                      key="samechunk:%s:%s" % (bad2[0], bad2[1]))
    chk.oblige("monitor:follow-up-request-gets-its-own-response(%d cancellation/timeout points)" % n, bad is None, json.dumps(bad)[:300] if bad else "")
    if bad:
        chk.violation("after request 1 (%s) ended by %s at point %d, the next request for the same command did not get its response "
                      "or a listener stayed registered (%d left): %s" % (bad[0], bad[1], bad[2], bad[5], bad[4]), {"case": bad},
                      key="followup:%s:%s" % (bad[0], bad[1]))
