"""C03 - checksums equal CRC-8/KOOP and CRC-16/KERMIT for every input.

Proof: coq/Crc/CrcProofs.v (tables regenerated from the tree = Tie A).
Tie B: the update loops of checksum.py against the model step on (state, byte) pairs and strings,
incremental use; monitor: the bitwise spec on the impl digests; frame decoder reject behaviour."""
import json

from common import hexs, BuildBroken


def impl():
    from zigpy_zboss.checksum import CRC8, CRC16
    return CRC8, CRC16


def d8(CRC8, s, data):
    return int(CRC8(bytes(data), initial_start=s).digest())


def d16(CRC16, s, data):
    return int(CRC16(bytes(data), initial_start=s).digest())


def run(chk):
    CRC8, CRC16 = impl()
    ok = chk.build(["tables", "consts"])
    rng = chk.rng
    thorough = chk.tier == "thorough"
    chk.rule = ("(state,byte) pairs of both automata (CRC8: all 65536; CRC16: all 2^24 in thorough, stratified "
                "sample otherwise) + random strings (lengths 0..600) incl. split-and-update; a case is non-trivial "
                "when its data is non-empty; distinct by (fn,state,data)")
    model = getattr(chk, "model", None)

    cases = []   # (fn, state, data)
    # all CRC8 (state, byte) pairs
    for s in range(256):
        for b in range(256):
            cases.append(("crc8", s, bytes([b])))
    chk.count("crc8_pairs", 65536)
    # CRC16 pairs
    if thorough:
        n16 = 1 << 24
    else:
        n16 = 1 << 18
    step = (1 << 24) // n16
    off = rng.randrange(step) if step > 1 else 0
    c16 = []
    for k in range(n16):
        v = k * step + ((off + k * 7919) % step if step > 1 else 0)
        c16.append(("crc16", v >> 8, bytes([v & 0xFF])))
    chk.count("crc16_pairs", n16)
    # random strings
    strings = []
    for i in range(4000 if thorough else 1500):
        ln = rng.choice([0, 1, 2, 3, 4, 5, 9, 16, 64, 247, 251, 600]) if rng.random() < 0.4 else rng.randrange(0, 300)
        data = bytes(rng.randrange(256) for _ in range(ln))
        strings.append(data)
        chk.count("string_len_%s" % ("0" if ln == 0 else "1-16" if ln <= 16 else "17-247" if ln <= 247 else ">247"))
    strings.append(b"123456789")

    viol = 0
    # ---- a proof/tie is broken: directed search with the table-free spec first (shortest replay)
    if chk.broken and model is not None:
        directed_search(chk, CRC8, CRC16, model)
    # ---- Tie B: impl vs model on all cases (model = proved equal to the spec)
    if model is not None:
        allc = cases + c16 + [("crc8", 0, s) for s in strings] + [("crc16", 0, s) for s in strings] \
            + [("crc16", rng.randrange(65536), s) for s in strings[:500]] \
            + [("crc8", rng.randrange(256), s) for s in strings[:500]]
        lines = ["%s %d %s" % (fn, s, hexs(d)) for fn, s, d in allc]
        outs = model.batch(lines)
        bad = None
        for (fn, s, d), o in zip(allc, outs):
            got = d8(CRC8, s, d) if fn == "crc8" else d16(CRC16, s, d)
            chk.note_case((fn, s, d), nontrivial=len(d) > 0)
            if str(got) != o:
                bad = (fn, s, d, got, o)
                break
        chk.oblige("tieB:update-loops", bad is None, "" if bad is None else repr(bad))
        if bad is not None:
            fn, s, d, got, o = bad
            # the model is proved equal to the spec: a disagreement on a digest is a failing input; confirm with spec
            spec = model.batch(["%sspec %s" % (fn, hexs(d))])[0] if s == 0 else None
            chk.violation("%s digest differs from the CRC spec: start=%d data=%s impl=%d model=%s spec(from init)=%s"
                          % (fn, s, hexs(d), got, o, spec),
                          {"fn": fn, "start": s, "data": hexs(d), "impl": got, "model": o}, key="%s:%d:%s" % (fn, s, hexs(d)))
            viol += 1
        chk.sample({"fn": "crc8", "start": 0, "data": "313233343536373839", "impl": d8(CRC8, 0, b"123456789"),
                    "model": outs[-0] if False else model.batch(["crc8 0 313233343536373839"])[0]})
    # ---- monitor: bitwise spec (no tables) on impl digests, incremental feeding
    if model is not None:
        lines = []
        for s in strings:
            lines.append("crc8spec %s" % hexs(s))
            lines.append("crc16spec %s" % hexs(s))
        outs = model.batch(lines)
        bad = None
        for i, s in enumerate(strings):
            g8, g16 = d8(CRC8, 0, s), d16(CRC16, 0, s)
            if str(g8) != outs[2 * i] or str(g16) != outs[2 * i + 1]:
                bad = (s, g8, outs[2 * i], g16, outs[2 * i + 1])
                break
            # incremental: split at a random point, update()
            k = rng.randrange(len(s) + 1)
            c = CRC8(s[:k]); c.update(s[k:])
            c2 = CRC16(s[:k]); c2.update(s[k:])
            c3 = CRC16(); c3.update(s[:k]); c4 = c3.copy(); c4.update(s[k:])
            if int(c.digest()) != g8 or int(c2.digest()) != g16 or int(c4.digest()) != g16:
                bad = (s, "incremental", k, int(c.digest()), int(c2.digest()))
                break
            # reading the digest is an observation, not an operation: digest()/hexdigest() between updates (and twice in a
            # row) change nothing; many small chunks; the object the copy was taken from is unaffected by the copy's updates
            if i % 4 == 0:
                j = rng.randrange(k + 1)
                ok_inc = True
                for cls, full, spec_pref in ((CRC8, g8, "crc8spec"), (CRC16, g16, "crc16spec")):
                    o = cls()
                    first = int(o.digest())
                    o.update(s[:j]); d1 = int(o.digest()); d1b = int(o.digest()); o.hexdigest()
                    cp = o.copy()
                    o.update(s[j:k]); d2 = int(o.digest())
                    o.update(s[k:]); d3 = int(o.digest())
                    cp.update(b"\x5a\xa5")
                    want1, want2 = [int(x) for x in model.batch(["%s %s" % (spec_pref, hexs(s[:j])), "%s %s" % (spec_pref, hexs(s[:k]))])]
                    want0 = int(model.batch(["%s -" % spec_pref])[0])
                    if (first, d1, d1b, d2, d3) != (want0, want1, want1, want2, full) or int(o.digest()) != full:
                        ok_inc = False
                        bad = (s, "digest-between-updates", cls.__name__, [j, k], [first, d1, d1b, d2, d3], [want0, want1, want1, want2, full])
                if not ok_inc:
                    break
            chk.evaluations += 1
        chk.oblige("monitor:spec-on-impl-digests+incremental", bad is None, "" if bad is None else repr(bad))
        if bad is not None and not chk.violations:
            chk.violation("impl digest differs from the bitwise CRC spec or incremental feeding differs: %r" % (bad,),
                          {"data": hexs(bad[0]), "detail": [str(x) for x in bad[1:]]}, key="spec:" + hexs(bad[0]))
        chk.sample({"data": hexs(strings[5]), "crc8_impl": d8(CRC8, 0, strings[5]), "crc16_impl": d16(CRC16, 0, strings[5])})

    # ---- consequence at the frame decoder: 1/2-bit header errors and body bursts are rejected
    bad = frame_reject_check(chk, rng, 40 if thorough else 6)
    chk.oblige("monitor:decoder-rejects-header-errors-and-bursts", bad is None, "" if bad is None else repr(bad)[:300])
    rbad = rx_reject_check(chk, rng, thorough)
    chk.oblige("monitor:receive-path-rejects-header-errors-and-body-bursts(all frame kinds)", rbad is None, "" if rbad is None else repr(rbad)[:300])
    if rbad is not None:
        chk.violation("corrupted frame accepted by the receive path (handed up or acknowledged): %r" % (rbad,), rbad,
                      key="rxreject:%s:%s" % (rbad.get("kind"), rbad.get("frame_kind")))
    if bad is not None:
        chk.violation("corrupted frame accepted by Frame.deserialize: %r" % (bad,), bad, key="reject:%s" % bad.get("kind"))

    # ---- cross-check extraction against in-kernel evaluation on a sample
    if model is not None and not chk.broken:
        try:
            kernel_sample(chk, strings[:40] + [b"123456789"])
        except BuildBroken as b:
            chk.broken.append(b)
            chk.oblige("extraction-vs-kernel", False, str(b))
    chk.exhaustive = False
    chk.extra["exhaustive_parts"] = ["all 65536 (state,byte) pairs of CRC8"] + (["all 2^24 (state,byte) pairs of CRC16"] if thorough else [])
    chk.assumptions = ["Python int/list semantics of the 3-line update loops are as modelled (tested by Tie B)",
                       "tools/pygen.py dumps CRC8._table/CRC16._table faithfully"]
    return chk.finish()


def frame_reject_check(chk, rng, nframes):
    import zigpy_zboss.types as t
    from zigpy_zboss.frames import Frame, HLPacket, LLHeader
    from zigpy_zboss.checksum import CRC8
    from zigpy_zboss.exceptions import InvalidFrame
    for _ in range(nframes):
        ln = rng.randrange(0, 60)
        payload = bytes(rng.randrange(256) for _ in range(ln))
        hl = HLPacket(t.HLCommonHeader(rng.randrange(1 << 32)), t.Bytes(payload))
        flags = 0xC0 | (rng.randrange(4) << 2)
        hdr = LLHeader().with_signature(Frame.signature).with_size(hl.length + 5).with_type(6).with_flags(flags)
        hdr = hdr.with_crc8(CRC8(hdr.serialize()[2:6]).digest())
        good = Frame(hdr, hl).serialize()
        f, rest = Frame.deserialize(good)
        if rest != b"" or f.serialize() != good:
            return {"kind": "selfcheck", "frame": good.hex()}
        for i in range(40):
            for j in range(i, 40):
                bad = bytearray(good)
                for bit in {i, j}:
                    bad[2 + bit // 8] ^= 1 << (bit % 8)
                chk.evaluations += 1
                try:
                    Frame.deserialize(bytes(bad))
                    return {"kind": "header", "frame": good.hex(), "bits": [i, j]}
                except InvalidFrame:
                    pass
                except ValueError:
                    pass
        # bursts over the checksum field itself (the field becomes 0x0000 / 0xFFFF / ...), data untouched
        crc = good[7] | (good[8] << 8)
        for v in (0x0000, 0xFFFF, 0x0001, 0x00FF, 0xFF00):
            if crc == v:
                continue
            bad = bytearray(good)
            bad[7], bad[8] = v & 0xFF, v >> 8
            chk.evaluations += 1
            try:
                Frame.deserialize(bytes(bad))
                return {"kind": "burst-on-checksum-field", "frame": good.hex(), "field_becomes": "0x%04x" % v}
            except InvalidFrame:
                pass
        body = len(good) - 9  # checksummed bytes
        for _ in range(300):
            w = rng.randrange(1, 65536)
            o = rng.randrange(0, max(1, body * 8 - 15)) if body * 8 > 16 else 0
            bad = bytearray(good)
            e = w << o
            touched = False
            for k in range(body):
                m = (e >> (8 * k)) & 0xFF
                if m:
                    bad[9 + k] ^= m
                    touched = True
            if not touched or (e >> (8 * body)):
                continue
            chk.evaluations += 1
            try:
                Frame.deserialize(bytes(bad))
                return {"kind": "burst", "frame": good.hex(), "w": w, "o": o}
            except InvalidFrame:
                pass
    return None


def rx_reject_check(chk, rng, thorough):
    """The same consequence on the real receive path (uart.data_received), for every kind of data frame: unfragmented,
    first, middle and last fragments, including continuation fragments with an empty or tiny body; frames are built with
    bit-by-bit reference checksums.  A corrupted frame must be neither handed up nor acknowledged."""
    from impl_link import run_rx, build_frame_bytes
    kinds = [("unfragmented", 0xC0, True), ("first", 0x40, True), ("middle", 0x00, False), ("last", 0x80, False)]
    for name, fl0, has_hdr in kinds:
        lens = [0, 1, 2, 17] if not has_hdr else [0, 1, 23]
        for ln in lens:
            flags = fl0 | (rng.randrange(4) << 2)
            data = bytes(rng.randrange(256) for _ in range(ln))
            good = build_frame_bytes(rng.randrange(1, 1 << 32) if has_hdr else None, data, flags)
            out, _ = run_rx([good])
            if "D:" not in out:
                return {"kind": "selfcheck", "frame_kind": name, "frame": good.hex(), "out": out}
            # 1- and 2-bit errors over the checksummed header bytes and the header checksum
            for i in range(40):
                for j in range(i, 40):
                    bad = bytearray(good)
                    for bit in {i, j}:
                        bad[2 + bit // 8] ^= 1 << (bit % 8)
                    chk.evaluations += 1
                    out, _ = run_rx([bytes(bad)])
                    if "D:" in out or "W:" in out:
                        return {"kind": "header", "frame_kind": name, "frame": good.hex(), "bits": [i, j], "out": out[:120]}
            # error bursts of up to 16 bits over the body (body checksum + the bytes it covers)
            region = len(good) - 7
            nbits = region * 8
            pats = []
            if nbits <= 16:
                pats = [(w, 0) for w in (range(1, 1 << nbits) if thorough else
                                         list(range(1, 300)) + [rng.randrange(1, 1 << nbits) for _ in range(1500)])]
            else:
                for o in range(0, nbits - 15):
                    pats += [(1, o), (3, o), (0x8001, o), (0xFFFF, o)]
                pats += [(rng.randrange(1, 65536) | 1, rng.randrange(0, nbits - 15)) for _ in range(600 if thorough else 150)]
                # bursts confined to the two checksum bytes that turn the field into a "special looking" value
                crc = good[7] | (good[8] << 8)
                pats += [(crc ^ v, 0) for v in (0x0000, 0xFFFF, 0x0001, 0x00FF, 0xFF00) if crc ^ v]
            for w, o in pats:
                e = w << o
                if e >> nbits:
                    continue
                bad = bytearray(good)
                for k in range(region):
                    bad[7 + k] ^= (e >> (8 * k)) & 0xFF
                chk.evaluations += 1
                out, _ = run_rx([bytes(bad)])
                if "D:" in out or "W:" in out:
                    return {"kind": "burst", "frame_kind": name, "data_len": ln, "frame": good.hex(), "w": w, "o": o, "out": out[:120]}
    # acknowledgement frames (a bare header): an accepted ACK hands nothing up and writes nothing - what it does is end the
    # wait in progress and advance the numbering.  A header corrupted in 1 or 2 bits must do neither, whatever number the
    # link currently expects.
    for k in range(4):
        for retx in (0, 2):
            good = build_frame_bytes(None, b"", 1 | retx | (k << 4))
            out, _ = run_rx([good], pack_seq=k, ack_event="0")
            if ";A" not in ";" + out.split(" // ")[0] or "seq=%d " % (k % 3 + 1) not in out:
                return {"kind": "selfcheck", "frame_kind": "ack", "frame": good.hex(), "out": out}
            for i in range(40):
                for j in range(i, 40):
                    bad = bytearray(good)
                    for bit in {i, j}:
                        bad[2 + bit // 8] ^= 1 << (bit % 8)
                    for q in range(4):
                        chk.evaluations += 1
                        out, _ = run_rx([bytes(bad)], pack_seq=q, ack_event="0")
                        head = out.split(" // ")[0]
                        if "A" in head.split(";") or "D:" in head or "W:" in head or ("seq=%d " % q) not in out or "ev=0" not in out:
                            return {"kind": "header", "frame_kind": "ack(%d) while the link expects %d" % (k, q), "frame": good.hex(),
                                    "bits": [i, j], "corrupted": bytes(bad).hex(), "out": out[:160]}
    return None


def directed_search(chk, CRC8, CRC16, model):
    """Proof or tie broken: look for a concrete string on which impl and the bitwise spec differ."""
    cands = [bytes([b]) for b in range(256)] + [bytes([a, b]) for a in (0, 1, 0x55, 0xFF) for b in range(256)]
    lines = []
    for c in cands:
        lines.append("crc8spec %s" % hexs(c))
        lines.append("crc16spec %s" % hexs(c))
    outs = model.batch(lines)
    for i, c in enumerate(cands):
        g8, g16 = d8(CRC8, 0, c), d16(CRC16, 0, c)
        if str(g8) != outs[2 * i]:
            chk.violation("crc8 of %s: impl %d, CRC-8/KOOP %s" % (hexs(c), g8, outs[2 * i]),
                          {"fn": "crc8", "start": 0, "data": hexs(c), "impl": g8, "spec": outs[2 * i]}, key="crc8:0:" + hexs(c))
            return
        if str(g16) != outs[2 * i + 1]:
            chk.violation("crc16 of %s: impl %d, CRC-16/KERMIT %s" % (hexs(c), g16, outs[2 * i + 1]),
                          {"fn": "crc16", "start": 0, "data": hexs(c), "impl": g16, "spec": outs[2 * i + 1]}, key="crc16:0:" + hexs(c))
            return


def kernel_sample(chk, strings):
    from common import coq_eval
    pre = ("From Coq Require Import NArith List. Import ListNotations. Open Scope N_scope.\n"
           "From ZB Require Import Base.Bytes Crc.CrcSpec Crc.CrcModel.")
    terms = []
    for s in strings:
        lst = "[" + "; ".join(str(b) for b in s) + "]"
        terms.append("(crc8 %s, crc16 %s, crc8_spec %s, crc16_spec %s)" % (lst, lst, lst, lst))
    res = coq_eval(chk.pid, (pre, terms))
    lines = []
    for s in strings:
        lines += ["crc8 0 %s" % hexs(s), "crc16 0 %s" % hexs(s), "crc8spec %s" % hexs(s), "crc16spec %s" % hexs(s)]
    outs = chk.model.batch(lines)
    ok = len(res) == len(strings)
    for i, r in enumerate(res):
        exp = "(%s, %s, %s, %s)" % tuple(outs[4 * i:4 * i + 4])
        if r.replace(" ", "") != exp.replace(" ", ""):
            ok = False
            break
    chk.oblige("extraction-vs-kernel(vm_compute sample of %d)" % len(strings), ok)
    if not ok:
        raise BuildBroken("extraction", "extracted code disagrees with in-kernel evaluation")


def replay(path):
    CRC8, CRC16 = impl()
    r = json.load(open(path))
    c = r.get("case", {})
    print(json.dumps(r, indent=1)[:2000])
    if "fn" in c:
        data = bytes.fromhex(c["data"]) if c["data"] != "-" else b""
        got = d8(CRC8, c["start"], data) if c["fn"] == "crc8" else d16(CRC16, c["start"], data)
        print("impl now: %d" % got)
        import common
        try:
            m = common.Model().batch(["%s %d %s" % (c["fn"], c["start"], c["data"])])[0]
            print("model now: %s" % m)
            return 0 if str(got) == m else 1
        except Exception as e:
            print("model unavailable: %s" % e)
    return 0
