"""C15 - failure responses cut short after the status are returned, never mis-parsed.

Proof: coq/Cmd/CommandProofs.v.  Tie B: every response class x valid assignments with status 0 / non-zero x EVERY
truncation point + surplus suffixes: cls.from_frame vs from_body; monitor: the property's rules on the impl result."""
import json

import wire_common as W


def monitor(cls, kw, body, c, got, status):
    """The property on the impl alone. got: 'A ..'/'P ..'/'R' for body[:c] (c may exceed len(body) = surplus)."""
    full = W.kw_text(cls, kw).split()
    nparams = len(cls.schema)
    if got != "R" and c <= len(body):
        toks = got[2:].split()
        # nothing shifted or invented: every returned field equals the sent one (a greedy tail may be a prefix)
        for i, (t, f) in enumerate(zip(toks, full)):
            if t == "n" or t == f:
                continue
            last_greedy = i == nparams - 1 and W.classify(cls.schema[i].type)[0] == "greedy"
            if last_greedy and f.startswith(t[:-1]):
                continue
            return "field %s returned as %s, sent %s" % (cls.schema[i].name, t, f)
    if c > len(body):
        sd = all(W.classify(p.type)[0] != "greedy" for p in cls.schema) and all(x != "n" for x in full)
        if sd and got != "R":
            return "surplus bytes accepted: %s" % got
        return None
    if status != 0 and c >= 3:
        if got == "R":
            return "failure response (status %d) cut at %d of %d bytes was rejected" % (status, c, len(body))
        toks = got[2:].split()
        if toks[:3] != full[:3]:
            return "TSN/status fields differ: %s vs %s" % (toks[:3], full[:3])
    return None


def run(chk):
    chk.build(["schemas", "enums", "consts", "tables"])
    rng = chk.rng
    model = getattr(chk, "model", None)
    thorough = chk.tier == "thorough"
    chk.rule = ("every response class x %d valid assignments x status in {0, 1, 0xA7, random} x EVERY truncation point of the body "
                "+ surplus suffixes of 1-3 bytes; non-trivial = a cut strictly inside the body; distinct by (class, body, cut)"
                % (4 if thorough else 2))
    if model is None:
        return chk.finish()
    table = [(i, c) for i, c in W.command_table() if ((int(c.header) >> 8) & 0xFF) == 1]
    lines, cases = [], []
    for idx, cls in table:
        for rep in range(4 if thorough else 2):
            for status in (0, rng.choice([1, 0xA7, rng.randrange(1, 256)])):
                for _ in range(10):
                    try:
                        kw = W.gen_assignment(rng, cls)
                        kw["StatusCode"] = type(kw["StatusCode"])(status)
                        cmd = cls(**kw)
                        break
                    except Exception:
                        continue
                body = bytes(cmd.to_frame().hl_packet.data)
                if len(body) > 120:
                    cuts = sorted(set(list(range(0, 12)) + [rng.randrange(len(body)) for _ in range(25)] + [len(body) - 1, len(body)]))
                else:
                    cuts = list(range(0, len(body) + 1))
                for c in cuts:
                    lines.append("cmddec %d %s" % (idx, W.hexs(body[:c])))
                    cases.append((idx, cls, kw, body, c, status, body[:c]))
                for extra in (1, 2, 3):
                    data = body + bytes(rng.randrange(256) for _ in range(extra))
                    lines.append("cmddec %d %s" % (idx, W.hexs(data)))
                    cases.append((idx, cls, kw, body, len(body) + extra, status, data))
    outs = model.batch(lines)
    # the same data decoded with the PINNED schema of the class (the protocol's parameter list, optional flags included)
    pouts = model.batch(["pcmddec %s %s" % (cls.__qualname__, W.hexs(data)) for (_, cls, _, _, _, _, data) in cases])
    tie_bad = mon_bad = pin_bad = None
    for (idx, cls, kw, body, c, status, data), o, po in zip(cases, outs, pouts):
        got = W.impl_from_body(cls, data)
        if got != po and po != "NOCLASS":
            if pin_bad is None:
                pin_bad = (cls.__qualname__, W.hexs(data), got, po)
            if len(chk.violations) < 5:
                what = ("a status-zero response cut short is delivered" if status == 0 and c < len(body) and po == "R" else
                        "the result differs from the protocol's parameter list")
                chk.violation("%s: %s: %s bytes %s (of the %d-byte response %s, status %d) give %s; by the protocol's schema: %s"
                              % (cls.__qualname__, what, len(data), W.hexs(data), len(body), W.hexs(body), status, got, po),
                              {"class": cls.__qualname__, "data": W.hexs(data), "result": got, "protocol": po},
                              key="%s:protocol-oracle" % cls.__qualname__)
        chk.note_case((cls.__qualname__, data), nontrivial=0 < c < len(body))
        chk.count("status_zero" if status == 0 else "status_nonzero")
        chk.count("result_" + got[:1])
        m = monitor(cls, kw, body, c, got, status)
        if m is not None:
            if mon_bad is None:
                mon_bad = (cls.__qualname__, W.hexs(data), m)
            chk.violation("%s: %s (body %s cut/extended to %d bytes)" % (cls.__qualname__, m, W.hexs(body), c),
                          {"class": cls.__qualname__, "assignment": W.kw_text(cls, kw), "data": W.hexs(data), "result": got, "why": m},
                          key="%s:%s" % (cls.__qualname__, m.split(":")[0][:40])) if len(chk.violations) < 5 else None
        if got != o and tie_bad is None:
            tie_bad = (cls.__qualname__, W.hexs(data), got, o)
    chk.oblige("tieB:from_frame-vs-from_body(%d cases)" % len(cases), tie_bad is None, repr(tie_bad)[:300] if tie_bad else "")
    chk.oblige("monitor:protocol-oracle(pinned schemas)-on-truncated/extended-responses", pin_bad is None, repr(pin_bad)[:300] if pin_bad else "")
    chk.oblige("monitor:truncation/surplus-rules-on-impl", mon_bad is None, repr(mon_bad)[:300] if mon_bad else "")
    if tie_bad and not mon_bad:
        from common import BuildBroken
        chk.broken.append(BuildBroken("correspondence", "from_frame differs from the model on truncated/extended data", json.dumps(tie_bad)))
    k = len(cases) // 2
    chk.sample({"class": cases[k][1].__qualname__, "data": W.hexs(cases[k][6]), "impl": W.impl_from_body(cases[k][1], cases[k][6])[:120]})
    chk.assumptions = ["zigpy leaf type deserialisers raise ValueError on short data (tested per type in C16)"]
    return chk.finish()


def replay(path):
    print(open(path).read()[:3000])
    return 0
