"""C09 - outgoing fragmentation partitions any message exactly, within the size limit.

Proof: coq/Link/FragProofs.v.  Tie B: Frame.handle_tx_fragmentation vs the model for every total
length in a range covering every residue mod 247 several times; monitor: the extracted spec
decoder applied to each fragment's bytes + the partition conditions of the property itself."""
import json

from common import hexs


def impl_fragments(h, d):
    import zigpy_zboss.types as t
    from zigpy_zboss.frames import Frame, HLPacket, LLHeader
    hl = HLPacket(t.HLCommonHeader(h), t.Bytes(d))
    ll = (LLHeader().with_signature(Frame.signature).with_size(hl.length + 5)
          .with_type(t.TYPE_ZBOSS_NCP_API_HL).with_flags(t.LLFlags.LastFrag | t.LLFlags.FirstFrag))
    return Frame(ll, hl).handle_tx_fragmentation()


def monitor(h, d, frs, model):
    """The property, checked on the impl's fragments with the spec decoder only."""
    MAX = 247
    msg = int(h).to_bytes(4, "little") + bytes(d)
    ser = [f.serialize() for f in frs]
    # stamp a valid crc8 the way the spec requires (flags as built, seq 0) - done by the decoder check below
    from zigpy_zboss.checksum import CRC8
    stamped = []
    for s in ser:
        b = bytearray(s)
        b[6] = int(CRC8(bytes(b[2:6])).digest())
        stamped.append(bytes(b))
    outs = model.batch(["specdec %s" % hexs(s) for s in stamped])
    bodies = []
    for i, (s, o) in enumerate(zip(stamped, outs)):
        if o == "NONE" or not o.endswith(" 0"):
            return "fragment %d does not decode as one well-formed frame: %s -> %s" % (i, hexs(s), o)
        inner = o[2:o.rindex(")")].split(",")
        size, flags, _, kind, hdr, data = inner
        size, flags = int(size), int(flags)
        body = (int(hdr).to_bytes(4, "little") if hdr != "-" else b"") + (bytes.fromhex(data) if data != "-" else b"")
        if size != len(s) - 2:
            return "fragment %d: length field %d but %d bytes follow the marker" % (i, size, len(s) - 2)
        if not (0 < len(body) <= MAX):
            return "fragment %d: body of %d bytes" % (i, len(body))
        first, last = bool(flags & 0x40), bool(flags & 0x80)
        if first != (i == 0) or last != (i == len(stamped) - 1):
            return "fragment %d of %d: first=%s last=%s" % (i, len(stamped), first, last)
        bodies.append(body)
    if b"".join(bodies) != msg:
        return "bodies do not concatenate to the message (%d vs %d bytes)" % (len(b"".join(bodies)), len(msg))
    if len(msg) <= MAX and len(frs) != 1:
        return "message of %d bytes fits one frame but %d were built" % (len(msg), len(frs))
    if len(frs) != -(-len(msg) // MAX):
        return "%d fragments for %d bytes" % (len(frs), len(msg))
    return None


def run(chk):
    ok = chk.build(["consts", "tables"])
    rng = chk.rng
    model = getattr(chk, "model", None)
    thorough = chk.tier == "thorough"
    MAX = 247
    top = (9 if thorough else 5) * MAX + 12
    chk.rule = ("every total body length 4..%d (each residue mod 247 at least %d times) x %d content patterns; "
                "non-trivial = more than one fragment; distinct by (length, pattern)" % (top, top // MAX, 3 if thorough else 2))
    if model is None:
        return chk.finish()
    pats = [lambda n: bytes(rng.randrange(256) for _ in range(n)), lambda n: bytes((i * 7 + 3) & 0xFF for i in range(n)),
            lambda n: b"\xde\xad" * (n // 2) + b"\xde" * (n % 2)]
    cases = []
    for total in range(4, top + 1):
        for p in pats[: (3 if thorough else 2)]:
            cases.append((rng.randrange(1, 1 << 32), p(total - 4)))
    # known-finding keys are residues: run the corpus first
    lines = ["frag %d %s" % (h, hexs(d)) for h, d in cases]
    outs = model.batch(lines)
    tie_bad, mon_bad = None, None
    for (h, d), o in zip(cases, outs):
        total = len(d) + 4
        try:
            frs = impl_fragments(h, d)
            got = "|".join(hexs(f.serialize()) for f in frs)
        except Exception as e:  # noqa
            frs, got = None, "EXC:" + type(e).__name__
        chk.note_case((total, d[:8]), nontrivial=total > MAX)
        chk.count("residue_class_%s" % ("1-3" if total % MAX in (1, 2, 3) and total > MAX else "other"))
        if got != o and tie_bad is None:
            tie_bad = (h, hexs(d), total)
        m = monitor(h, d, frs, model) if frs is not None else "handle_tx_fragmentation raised " + got
        if m is not None:
            key = "residue=%d" % (total % MAX)
            if mon_bad is None:
                mon_bad = (h, hexs(d), total, m)
            chk.violation("message of %d bytes (= %d mod 247): %s" % (total, total % MAX, m),
                          {"header": h, "payload": hexs(d), "total": total, "why": m}, key=key) if not any(
                              v["what"].startswith("message of") and ("= %d mod" % (total % MAX)) in v["what"] for v in chk.violations) else None
    chk.oblige("tieB:handle_tx_fragmentation", tie_bad is None, repr(tie_bad)[:200] if tie_bad else "")
    chk.oblige("monitor:partition-conditions-on-impl-fragments", mon_bad is None, repr(mon_bad)[:300] if mon_bad else "")
    if tie_bad and not mon_bad:
        # model and impl differ but the property holds on the impl output: the tie is broken, not the property
        from common import BuildBroken
        chk.broken.append(BuildBroken("correspondence", "tx fragmentation differs from the model at total=%d" % tie_bad[2],
                                      json.dumps(tie_bad)))
    chk.sample({"total": 251, "fragments_impl": [len(f.serialize()) for f in impl_fragments(65536, bytes(247))]})
    chk.exhaustive = False
    chk.assumptions = ["fragments are compared through Frame.serialize() (crc8 field 0 before stamping)"]
    return chk.finish()


def replay(path):
    r = json.load(open(path))
    print(json.dumps(r, indent=1)[:1500])
    c = r.get("case", {})
    if "payload" in c:
        import common
        d = bytes.fromhex(c["payload"]) if c["payload"] != "-" else b""
        frs = impl_fragments(c["header"], d)
        m = monitor(c["header"], d, frs, common.Model())
        print("monitor now:", m)
        return 1 if m else 0
    return 0
