"""C04 - every typed command survives encode -> wire -> decode unchanged.

Proof: coq/Cmd/CommandProofs.v instantiated for all regenerated schemas (Tie A).
Tie B: per command class, random valid assignments: cls(**a).to_frame() body vs enc_params; from_frame vs
from_body; invalid assignments refused by both."""
import json

import wire_common as W


def run(chk):
    chk.build(["schemas", "enums", "consts", "tables"])
    rng = chk.rng
    model = getattr(chk, "model", None)
    thorough = chk.tier == "thorough"
    chk.rule = ("for each of the command classes: %d random valid assignments (boundary ints, empty/short/long lists, every "
                "optional prefix) + invalid assignments (out-of-range ints, missing required, skipped optional); non-trivial = "
                "a class with at least one parameter beyond TSN/status; distinct by (class, assignment)" % (40 if thorough else 8))
    if model is None:
        return chk.finish()
    table = W.command_table()
    per = 40 if thorough else 8
    cases = []
    refused = None
    for idx, cls in table:
        # classes carrying list-like or composite parameters get more assignments (boundary shapes cycle)
        composite = any(W.classify(p.type)[0] not in ("int", "fixbytes") for p in cls.schema)
        for _ in range(per * (3 if composite else 1)):
            kw = W.gen_assignment(rng, cls)
            try:
                cmd = cls(**kw)
            except Exception as e:  # noqa  the generator only produces valid values: a refusal is a finding, not a skip
                chk.count("valid_assignment_refused")
                if refused is None:
                    refused = (cls.__qualname__, W.kw_text(cls, kw)[:300], "%s: %s" % (type(e).__name__, str(e)[:120]))
                    chk.violation("%s refuses the valid assignment %s (%s)" % refused,
                                  {"class": refused[0], "assignment": W.kw_text(cls, kw), "error": refused[2]},
                                  key="refuses-valid:%s" % cls.__qualname__)
                continue
            cases.append((idx, cls, kw, cmd))
        # boundary shapes of every list / byte-string parameter: exactly as many entries as the count prefix can announce
        # (255 behind a 1-byte count), and the longest byte string the type takes
        for p in cls.schema:
            c = W.classify(p.type)
            big = None
            try:
                if c[0] == "lvlist" and c[1] == 1:
                    big = p.type([W.gen_py(rng, W.item_type_of(p.type), True) for _ in range(255)])
                elif c[0] == "lvbytes" and c[2] <= 65536:
                    big = p.type(bytes(rng.randrange(256) for _ in range(c[2] - 1)))
            except Exception as e:  # noqa
                big = None
            if big is None and c[0] == "lvlist" and c[1] == 2 and c[2][0] == "int":
                # 65535 entries behind a 2-byte count: too long for the model's text protocol - checked on the implementation
                # alone: accepted by the constructor, and the parameter encodes as the count FF FF followed by the items
                try:
                    items = [rng.randrange(256 ** c[2][1]) for _ in range(65535)]
                    kw2 = W.gen_assignment(rng, cls)
                    kw2[p.name] = p.type(items)
                    # (no to_frame(): 65535 entries do not fit the 16-bit length field of a link-layer frame - that is the
                    # frame's limit, not the parameter's; the parameter's own encoding is what is checked)
                    cmd2 = cls(**kw2)
                    body2 = bytes(getattr(cmd2, p.name).serialize())
                    want2 = b"\xff\xff" + b"".join(int(x).to_bytes(c[2][1], "little") for x in items)
                    chk.count("boundary_full_lvlist_65535")
                    if want2 != body2 and refused is None:
                        refused = (cls.__qualname__, "%s with 65535 entries is not encoded as FFFF + items" % p.name, "")
                        chk.violation("%s: %s" % refused[:2], {"class": refused[0], "parameter": p.name}, key="refuses-valid:%s" % cls.__qualname__)
                except Exception as e:  # noqa
                    chk.count("valid_assignment_refused")
                    if refused is None:
                        refused = (cls.__qualname__, "%s = a %s with 65535 entries (the most its 2-byte prefix can announce)"
                                   % (p.name, p.type.__name__), "%s: %s" % (type(e).__name__, str(e)[:120]))
                        chk.violation("%s refuses a valid assignment: %s (%s)" % refused,
                                      {"class": refused[0], "parameter": p.name, "entries": 65535, "error": refused[2]},
                                      key="refuses-valid:%s" % cls.__qualname__)
            if big is None:
                continue
            kw = W.gen_assignment(rng, cls)
            for q in cls.schema:                       # all optional parameters up to p given
                if q.name not in kw:
                    kw[q.name] = W.gen_py(rng, q.type, True)
                    while q.optional and W.classify(q.type)[0] == "greedy" and len(kw[q.name]) == 0:
                        kw[q.name] = W.gen_py(rng, q.type)
                if q is p:
                    break
            kw[p.name] = big
            chk.count("boundary_full_" + c[0])
            try:
                cmd = cls(**kw)
            except Exception as e:  # noqa
                chk.count("valid_assignment_refused")
                if refused is None:
                    refused = (cls.__qualname__, "%s = a %s with %d entries (the most its %d-byte prefix can announce)"
                               % (p.name, p.type.__name__, len(big), c[1]), "%s: %s" % (type(e).__name__, str(e)[:120]))
                    chk.violation("%s refuses a valid assignment: %s (%s)" % refused,
                                  {"class": refused[0], "parameter": p.name, "entries": len(big), "error": refused[2]},
                                  key="refuses-valid:%s" % cls.__qualname__)
                continue
            cases.append((idx, cls, kw, cmd))
    lines = ["cmdenc %d %s" % (idx, W.kw_text(cls, kw)) for idx, cls, kw, cmd in cases]
    outs = model.batch(lines)
    enc_bad = dec_bad = None
    dec_lines, dec_cases = [], []
    for (idx, cls, kw, cmd), o in zip(cases, outs):
        fr = cmd.to_frame()
        body = bytes(fr.hl_packet.data)
        chk.note_case((cls.__qualname__, W.kw_text(cls, kw)), nontrivial=len(cls.schema) > 3)
        chk.count("ctl_%d" % ((int(cls.header) >> 8) & 0xFF))
        if W.hexs(body) != o:
            if enc_bad is None:
                enc_bad = (cls.__qualname__, W.kw_text(cls, kw), W.hexs(body), o)
            continue
        # monitor (layout): header of the frame is the class header; bytes are the concatenation of the parameter encodings
        mon = None
        if int(fr.hl_packet.header) != int(cls.header):
            mon = "command header %d != class header %d" % (int(fr.hl_packet.header), int(cls.header))
        if ((int(cls.header) >> 8) & 0xFF) in (1, 2):
            dec_lines.append("cmddec %d %s" % (idx, W.hexs(body)))
            dec_cases.append((idx, cls, kw, cmd, body))
    douts = model.batch(dec_lines)
    eq_bad = None
    for (idx, cls, kw, cmd, body), o in zip(dec_cases, douts):
        got = W.impl_from_body(cls, body)
        want = "A " + W.kw_text(cls, kw)
        # monitor: the property itself on the impl: decoding yields a command equal to the original
        if got[2:] != want[2:] or got == "R":
            dec_bad = dec_bad or (cls.__qualname__, W.kw_text(cls, kw), W.hexs(body), got)
            key = "%s:%s" % (cls.__qualname__, "optional-absent" if any(v is None for v in [kw.get(p.name) for p in cls.schema]) else "full")
            chk.violation("%s: decoding the encoding of %s gives %s" % (cls.__qualname__, W.kw_text(cls, kw), got),
                          {"class": cls.__qualname__, "assignment": W.kw_text(cls, kw), "body": W.hexs(body), "decoded": got}, key=key)
        elif got != o and dec_bad is None:
            dec_bad = (cls.__qualname__, W.kw_text(cls, kw), W.hexs(body), got, o)
        else:
            # "a command equal to the original": the library's own notion of equality too (both ways), and equal hashes
            # for equal commands where the command is hashable at all
            try:
                dec = cls.from_frame(W.frame_with_body(cls, body))
                eq = (dec == cmd) and (cmd == dec) and not (dec != cmd)
                try:
                    hq = hash(dec) == hash(cmd)
                except TypeError:
                    hq = True
            except Exception as e:  # noqa
                eq, hq = False, "raised %s" % type(e).__name__
            if (not eq or hq is not True) and eq_bad is None:
                eq_bad = (cls.__qualname__, W.kw_text(cls, kw), W.hexs(body), eq, hq)
                chk.violation("%s: the command decoded from the encoding of %s has the same parameter values but does not compare "
                              "equal to the original (==: %s, equal hashes: %s)" % (cls.__qualname__, W.kw_text(cls, kw), eq, hq),
                              {"class": cls.__qualname__, "assignment": W.kw_text(cls, kw), "body": W.hexs(body)},
                              key="%s:equality" % cls.__qualname__)
    chk.oblige("monitor:every-valid-assignment-is-accepted-by-the-constructor(incl. lists of exactly the largest count)", refused is None,
               repr(refused) if refused else "")
    chk.oblige("tieB:to_frame-vs-enc_params(%d cases)" % len(cases), enc_bad is None, repr(enc_bad)[:300] if enc_bad else "")
    chk.oblige("monitor:decoded-command-compares-equal-to-the-original", eq_bad is None, repr(eq_bad)[:300] if eq_bad else "")
    chk.oblige("tieB+monitor:from_frame-roundtrip(%d cases)" % len(dec_cases), dec_bad is None, repr(dec_bad)[:300] if dec_bad else "")
    if enc_bad and not chk.violations:
        chk.violation("%s: bytes produced for %s are %s, the schema-order encoding is %s" % enc_bad,
                      {"class": enc_bad[0], "assignment": enc_bad[1], "impl": enc_bad[2], "model": enc_bad[3]}, key="enc:" + enc_bad[0])

    # ---- invalid assignments are refused by both
    ref_bad = None
    n_inv = 0
    for idx, cls in table:
        ints = [p for p in cls.schema if W.classify(p.type)[0] == "int" and not p.optional]
        req = [p for p in cls.schema if not p.optional]
        opts = [p for p in cls.schema if p.optional]
        trials = []
        if ints:
            p = rng.choice(ints)
            c = W.classify(p.type)
            kw = W.gen_assignment(rng, cls)
            big = (1 << (8 * c[1])) if not c[2] else (1 << (8 * c[1] - 1))
            kw[p.name] = big
            # a signed out-of-range value has no unsigned image: only the impl side is observable for it
            trials.append(("out-of-range-signed" if c[2] else "out-of-range", kw, "i%d" % big, p.name))
        if len(req) > 1:
            kw = W.gen_assignment(rng, cls)
            p = rng.choice(req)
            del kw[p.name]
            trials.append(("missing", kw, None, p.name))
        if len(opts) >= 2:
            kw = {p.name: W.gen_py(rng, p.type) for p in cls.schema if p.name != opts[0].name}
            trials.append(("skipped-optional", kw, None, opts[0].name))
        for kind, kw, raw, pname in trials:
            n_inv += 1
            try:
                cls(**kw)
                impl_refused = False
            except (ValueError, KeyError, TypeError):
                impl_refused = True
            # model text: raw ints are written directly
            toks = []
            for p in cls.schema:
                if p.name == pname and raw is not None:
                    toks.append(raw)
                elif kw.get(p.name) is None:
                    toks.append("n")
                else:
                    toks.append(W.to_model(W.classify(p.type), kw[p.name]))
            mo = model.batch(["cmdenc %d %s" % (idx, " ".join(toks))])[0]
            chk.count("invalid_" + kind)
            chk.evaluations += 1
            if not impl_refused:
                chk.violation("%s accepts an invalid assignment (%s of %s)" % (cls.__qualname__, kind, pname),
                              {"class": cls.__qualname__, "kind": kind, "param": pname, "assignment": " ".join(toks)}, key="accepts:%s:%s" % (cls.__qualname__, kind))
            if kind != "out-of-range-signed" and (mo == "REFUSED") != impl_refused and ref_bad is None:
                ref_bad = (cls.__qualname__, kind, pname, impl_refused, mo)
    chk.oblige("tieB:invalid-assignments-refused(%d)" % n_inv, ref_bad is None, repr(ref_bad) if ref_bad else "")
    # ---- every integer-like parameter (plain, enum, bitmap) of every class x every out-of-range plain value: refused
    sweep_bad = None
    n_sw = 0
    for idx, cls in table:
        base = None
        for p in cls.schema:
            c = W.classify(p.type)
            if c[0] != "int":
                continue
            if base is None:
                for _ in range(20):
                    try:
                        base = W.gen_assignment(rng, cls)
                        # all optional parameters given, so that any of them can be overwritten
                        for q in cls.schema:
                            if q.name not in base:
                                base[q.name] = W.gen_py(rng, q.type)
                        cls(**base)
                        break
                    except Exception:  # noqa
                        base = None
                if base is None:
                    break
            lo, hi = (-(1 << (8 * c[1] - 1)), (1 << (8 * c[1] - 1)) - 1) if c[2] else (0, (1 << (8 * c[1])) - 1)
            for v in (hi + 1, lo - 1, -1 if lo == 0 else lo - 2, 1 << (8 * c[1] + 3)):
                kw = dict(base)
                kw[p.name] = v
                n_sw += 1
                chk.evaluations += 1
                try:
                    obj = cls(**kw)
                except (ValueError, KeyError, TypeError, OverflowError):
                    continue
                if sweep_bad is None:
                    try:
                        wire = bytes(obj.to_frame().hl_packet.data).hex()
                    except Exception as e:  # noqa
                        wire = "to_frame raised %s" % type(e).__name__
                    sweep_bad = (cls.__qualname__, p.name, v, wire)
                    chk.violation("%s accepts the out-of-range value %d for parameter %s (%d-byte %s) and encodes it as %s"
                                  % (cls.__qualname__, v, p.name, c[1], "signed" if c[2] else "unsigned", wire),
                                  {"class": cls.__qualname__, "param": p.name, "value": v, "wire": wire},
                                  key="accepts-range:%s:%s" % (cls.__qualname__, p.name))
    chk.count("out_of_range_sweep", n_sw)
    chk.oblige("monitor:out-of-range-plain-values-refused(every int/enum/bitmap parameter of every class: %d trials)" % n_sw,
               sweep_bad is None, repr(sweep_bad) if sweep_bad else "")
    # ---- out-of-range values that arrive ALREADY WRAPPED in the parameter's own type (a list type's constructor takes
    # any number of items of any size; whether the value fits the wire format is only known when it is encoded): a
    # fixed-length list of the wrong length, a counted list with more entries than its count prefix can announce, a
    # byte string longer than its length prefix allows, a list item that does not fit the item type.  "Refused at
    # construction": the constructor raises; a command object that exists must be encodable.
    typed_bad = None
    n_ty = 0
    for idx, cls in table:
        base = None
        for p in cls.schema:
            c = W.classify(p.type)
            if c[0] not in ("fixlist", "fixbytes", "lvlist", "lvbytes", "greedy"):
                continue
            if base is None:
                for _ in range(20):
                    try:
                        base = W.gen_assignment(rng, cls)
                        for q in cls.schema:
                            if q.name not in base:
                                base[q.name] = W.gen_py(rng, q.type)
                        cls(**base)
                        break
                    except Exception:  # noqa
                        base = None
                if base is None:
                    break
            good = base[p.name]
            bads = []
            try:
                if c[0] == "fixbytes":
                    bads.append(("%d bytes instead of %d" % (c[1] - 1, c[1]), p.type(list(good)[:-1])))
                    bads.append(("%d bytes instead of %d" % (c[1] + 1, c[1]), p.type(list(good) + [0])))
                elif c[0] == "fixlist":
                    bads.append(("%d items instead of %d" % (c[1] - 1, c[1]), p.type(list(good)[:-1])))
                elif c[0] == "lvbytes" and c[2] <= 65536:
                    bads.append(("%d bytes behind a %d-byte length prefix" % (c[2] + (0 if c[2] == 256 ** c[1] else 1), c[1]),
                                 p.type(b"\x01" * (c[2] + (0 if c[2] == 256 ** c[1] else 1)))))
                if c[0] in ("lvlist", "fixlist", "greedy"):
                    it = c[2] if c[0] != "greedy" else c[1]
                    if it[0] == "int" and not it[2]:
                        n = c[1] if c[0] == "fixlist" else 1
                        bads.append(("an item of value %d in a list of %d-byte items" % (1 << (8 * it[1]), it[1]),
                                     p.type([1 << (8 * it[1])] * n)))
                    if c[0] == "lvlist" and c[1] == 1:
                        item = list(good)[0] if len(good) else W.gen_py(rng, W.item_type_of(p.type), True)
                        bads.append(("256 entries behind a 1-byte count", p.type([item] * 256)))
            except Exception:  # noqa   the type itself refuses to hold such a value: nothing to hand to the constructor
                chk.count("typed_invalid_refused_by_the_type")
            for what, bad in bads:
                try:
                    bad.serialize()
                    chk.count("typed_invalid_but_encodable")      # not out of range after all: not a trial
                    continue
                except Exception:  # noqa
                    pass
                kw = dict(base)
                kw[p.name] = bad
                n_ty += 1
                chk.evaluations += 1
                chk.count("typed_invalid_" + c[0])
                try:
                    cls(**kw)
                except (ValueError, KeyError, TypeError, OverflowError):
                    continue
                if typed_bad is None:
                    typed_bad = (cls.__qualname__, p.name, what)
                    chk.violation("%s accepts, for parameter %s, a %s value that cannot be encoded (%s): out-of-range values are "
                                  "to be refused at construction" % (cls.__qualname__, p.name, p.type.__name__, what),
                                  {"class": cls.__qualname__, "param": p.name, "type": p.type.__name__, "what": what,
                                   "assignment_of_the_other_parameters": W.kw_text(cls, base)},
                                  key="accepts-typed:%s:%s" % (cls.__qualname__, p.name))
    chk.count("typed_out_of_range_sweep", n_ty)
    chk.oblige("monitor:out-of-range-values-wrapped-in-the-parameter-type-refused(every list / byte-string parameter of every "
               "class: %d trials)" % n_ty, typed_bad is None, repr(typed_bad) if typed_bad else "")
    # all regenerated Rsp/Ind schemas satisfy the decidable side condition of the round-trip theorem
    oks = model.batch(["schemaok %d" % idx for idx, cls in table])
    notok = [cls.__qualname__ for (idx, cls), o in zip(table, oks) if o != "1" and ((int(cls.header) >> 8) & 0xFF) in (1, 2)]
    chk.oblige("schema_ok for all response/indication schemas", not notok, ",".join(notok))
    chk.sample({"class": cases[5][1].__qualname__, "assignment": W.kw_text(cases[5][1], cases[5][2]), "body": outs[5]})
    chk.assumptions = ["zigpy leaf types (uintN_t, enums incl. undefined members, EUI64, LVBytes, List, Struct) as modelled; "
                       "bit-field structs (NodeDescriptor, PowerDescriptor, Neighbor) are their n-byte image"]
    return chk.finish()


def replay(path):
    r = json.load(open(path))
    print(json.dumps(r, indent=1)[:2000])
    return 0
