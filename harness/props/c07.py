"""C07 - transmission is stop-and-wait: one unacknowledged data frame at a time, in order.

Proof: coq/Link/TxSchedProofs.v (invariant by induction over event histories of the uart.send state machine).
Tie B: 1-4 concurrent callers of the REAL uart.send x NCP events {matching ACK, ACK with each other number, duplicate
ACK, unrelated data frame, silence past the ACK wait, sender cancellation, close}, injected at quiescent points of a
virtual-time asyncio loop; observation: ordered log of writes and sender completions; monitor: the two trace
predicates of the property, computed independently on the impl log."""
import itertools
import json

import api_common as A
import api_tie as T


def ev_text(e):
    if e[0] == "data":
        return "D"
    k = e[0]
    return {"send": "S:%s", "ack": "A:%s", "tick": "T:%s", "cancelsend": "C:%s"}.get(k, "") % e[1] if len(e) > 1 else {"data": "D", "uclose": "X", "rflag": "T:0"}[k]


def canon(items):
    keep = [x for x in items if not x.startswith("F:")]
    return keep + sorted(x for x in items if x.startswith("F:"))


def impl_run(events):
    r = A.Runner()
    try:
        out = [canon(r.step(e)) for e in events]
        return out, r.cur_seq(), list(r.wtimes)
    finally:
        r.close()


def model_run(model, events):
    o = model.batch(["txs " + " ".join(ev_text(e) for e in events)])[0]
    body, tail = o.split(" // ")
    return [canon([x for x in p.strip().split(" ") if x]) for p in body.split(" / ")], int(tail.split("seq=")[1])


def monitor(events, steps, wtimes):
    """Independent reference.  The last data frame written is `in flight` until an ACK carrying its stamped number
    arrives, 1000 ms of virtual time pass, its sender is cancelled, or the link is closed; a data frame may be
    written only when no frame is in flight, and only by the head of the FIFO of outstanding send() calls."""
    fifo, last = [], None      # last = [tag, stamped seq, write time, in_flight?]
    wi = 0
    now = 0
    for e, st in zip(events, steps):
        if e[0] == "tick":
            now += int(e[1])
        if e[0] == "send":
            fifo.append(int(e[1]))
        if e[0] == "ack" and last is not None and last[3] and int(e[1]) == last[1]:
            last[3] = False
        if e[0] == "uclose" and last is not None:
            last[3] = False
        if e[0] == "cancelsend":
            t = int(e[1])
            if last is not None and last[0] == t:
                last[3] = False
            elif t in fifo:
                fifo.remove(t)
        for x in sorted(st, key=lambda y: 0 if y.startswith("U:") else 1):
            if x.startswith("F:") and x.endswith(":OK"):
                tag = int(x.split(":")[1])
                if tag in fifo:        # served without a write (no transport)
                    if fifo[0] != tag:
                        return "sender %d finished out of turn" % tag
                    fifo.pop(0)
            if x.startswith("U:"):
                tag, seq = int(x.split(":")[1]), int(x.split(":")[2])
                t_now = wtimes[wi] if wi < len(wtimes) else now
                wi += 1
                if last is not None and last[3] and t_now - last[2] < 1000:
                    return ("frame of sender %d written at %d ms while the frame of sender %d (stamped %d, written at %d ms) was "
                            "neither acknowledged nor expired nor cancelled (event %s)" % (tag, t_now, last[0], last[1], last[2], e))
                if not fifo or fifo[0] != tag:
                    return "sender %d written out of turn (outstanding calls in order: %s)" % (tag, fifo)
                fifo.pop(0)
                last = [tag, seq, t_now, True]
    return None


def run(chk):
    chk.build(["consts", "tables"])
    rng = chk.rng
    model = getattr(chk, "model", None)
    thorough = chk.tier == "thorough"
    chk.rule = ("1-4 concurrent uart.send callers x {matching ACK, ACK(other), duplicate ACK, data-in, tick past the ACK wait, "
                "cancel sender, close}: all histories of depth <=%d over a 9-letter alphabet with 2 senders + random histories with up "
                "to 4 senders (depth 6-16); non-trivial = two senders outstanding at once; distinct by history" % (5 if thorough else 4))
    if model is None:
        return chk.finish()
    hist = []
    alpha = [("send", "1"), ("send", "2"), ("ack", 0), ("ack", 1), ("ack", 2), ("tick", 1000), ("cancelsend", "1"), ("cancelsend", "2"), ("data",)]
    for dpt in range(1, (5 if thorough else 4) + 1):
        for combo in itertools.product(alpha, repeat=dpt):
            sends = [c[1] for c in combo if c[0] == "send"]
            if len(sends) != len(set(sends)) or not sends:
                continue
            hist.append(list(combo))
    for _ in range(1200 if thorough else 200):
        n = rng.randrange(6, 17)
        evs, tags = [], []
        r = A.Runner()
        try:
            for _ in range(n):
                x = rng.random()
                if (x < 0.3 and len(tags) < 4) or not tags:
                    tags.append(str(len(tags) + 1))
                    e = ("send", tags[-1])
                elif x < 0.6:
                    e = ("ack", r.cur_seq() if rng.random() < 0.7 else rng.randrange(4))
                elif x < 0.72:
                    e = ("tick", rng.choice([300, 999, 1000, 2500]))
                elif x < 0.84:
                    e = ("cancelsend", rng.choice(tags))
                elif x < 0.92:
                    e = ("data",) if rng.random() < 0.5 else ("data", rng.randrange(4))
                elif x < 0.95:
                    e = ("rflag",)
                else:
                    e = ("uclose",)
                evs.append(e)
                r.step(e)
        finally:
            r.close()
        evs.append(("tick", 1000 * (len(tags) + 1)))
        hist.append(evs)
    # the reset mark set (as ZBOSS.reset() does, and it stays set when the radio does not disconnect): still stop-and-wait
    # unrelated data frames whose (meaningless) ACK-number bits happen to equal the number in flight: not an acknowledgement
    for q in range(4):
        hist.append([("send", "1"), ("ack", 0), ("send", "2"), ("send", "3"), ("data", 1), ("data", q), ("tick", 300), ("ack", 1), ("data", 2), ("tick", 3000)])
    hist.append([("rflag",), ("send", "1"), ("send", "2"), ("send", "3"), ("tick", 300), ("tick", 1000), ("tick", 1000), ("tick", 1000)])
    hist.append([("send", "1"), ("rflag",), ("send", "2"), ("ack", 0), ("send", "3"), ("tick", 500), ("ack", 1), ("tick", 3000)])
    tie_bad = mon_bad = None
    lines = ["txs " + " ".join(ev_text(e) for e in evs) for evs in hist]
    mouts = model.batch(lines)
    for evs, mo in zip(hist, mouts):
        isteps, ips, wt = impl_run(evs)
        body, tail = mo.split(" // ")
        msteps = [canon([x for x in p.strip().split(" ") if x]) for p in body.split(" / ")]
        mps = int(tail.split("seq=")[1])
        nsend = sum(1 for e in evs if e[0] == "send")
        chk.note_case([ev_text(e) for e in evs], nontrivial=nsend >= 2)
        chk.count("senders_%d" % nsend)
        if (isteps, ips) != (msteps, mps) and tie_bad is None:
            tie_bad = ([ev_text(e) for e in evs], isteps, msteps, ips, mps)
        m = monitor(evs, isteps, wt)
        if m is not None and mon_bad is None:
            mon_bad = ([ev_text(e) for e in evs], m)
            small = T.shrink(evs, lambda x: monitor(x, *[impl_run(x)[i] for i in (0, 2)]) is not None)
            chk.violation(monitor(small, *[impl_run(small)[i] for i in (0, 2)]) or m, {"events": [ev_text(e) for e in small], "raw": small}, key=None)
    chk.oblige("tieB:uart.send-scheduling-vs-model(%d histories)" % len(hist), tie_bad is None, json.dumps(tie_bad)[:400] if tie_bad else "")
    chk.oblige("monitor:stop-and-wait+request-order-on-impl-log", mon_bad is None, json.dumps(mon_bad)[:300] if mon_bad else "")
    if tie_bad and not mon_bad:
        from common import BuildBroken
        chk.broken.append(BuildBroken("correspondence", "uart.send scheduling differs from the model", json.dumps(tie_bad)))
    chk.sample({"events": [ev_text(e) for e in hist[-1]], "impl": [" ".join(s) for s in impl_run(hist[-1])[0]]})
    chk.extra["exhaustive_parts"] = ["all histories up to depth %d over the 9-letter alphabet (2 senders)" % (5 if thorough else 4)]
    chk.assumptions = ["events injected at quiescent points of the asyncio loop; asyncio.Lock FIFO hand-over, Event, async_timeout as "
                       "abstracted by the macro-step semantics of Link/TxSched.v (modelled, not verified)"]
    return chk.finish()


def replay(path):
    r = json.load(open(path))
    print(json.dumps(r, indent=1)[:2500])
    return 0
