"""C14 - blocking requests are mutually exclusive and served first-come first-served.

Proof: coq/Api/ApiProofs.v (invariants of the event-driven state machine Api.v, by induction over event histories).
Tie B: scenarios of concurrent requests x NCP events (matching / stale ACKs, responses, silence, cancellation, close,
loss, reset) injected at quiescent points of the REAL ZBOSS + ZbossNcpProtocol pair under a virtual-time asyncio
loop, compared step by step with the extracted model; monitor: the property's trace predicate on the impl log."""
import json

import api_tie as T


def run(chk):
    chk.build(["consts", "schemas", "tables"])
    thorough = chk.tier == "thorough"
    chk.rule = ("online-generated scenarios (4-16 events + closing ticks; focus=blocking) over 8 request kinds (blocking / non-blocking, "
                "1-3 fragments) and the events issue, ACK(n), response, data-in, tick, cancel, close, loss, reset begin/end; "
                "non-trivial = at least two requests issued; distinct by event list")
    if getattr(chk, "model", None) is None:
        return chk.finish()
    mons = [("blocking", T.mon_blocking)]
    T.campaign(chk, 220 if thorough else 40, "blocking", mons)
    T.campaign(chk, 120 if thorough else 20, "mixed", mons)
    extra(chk, thorough)
    chk.assumptions = ["events are injected at quiescent points of the asyncio loop only (cancellation / I/O landing between two "
                       "loop iterations of one settle is outside the model)", "CPython asyncio Lock/Event/Future and async_timeout "
                       "semantics are modelled by the macro-step semantics of Api.v, not verified"]
    return chk.finish()


def replay(path):
    r = json.load(open(path))
    print(json.dumps(r, indent=1)[:3000])
    c = r.get("case", {})
    if "raw" in c:
        evs = [tuple(e) for e in c["raw"]]
        import common
        print("impl :", T.impl_run(evs))
        print("model:", T.model_run(common.Model(), evs))
    return 0


def extra(chk, thorough):
    """Non-blocking requests never wait for a blocking request's response."""
    import api_common as A
    bad = None
    for bk in ("b1", "b2"):
        r = A.Runner()
        try:
            r.step(("issue", 1, bk))
            for _ in range(A.KINDS[bk][2]):
                r.step(("ack", r.proto._pack_seq))
            # blocking request now waits for its response; the link is free
            o = r.step(("issue", 2, "nb1"))
            o2 = r.step(("issue", 3, "b1b"))
            chk.evaluations += 1
            if not any(x.startswith("W:2.0") for x in o):
                bad = (bk, "non-blocking request not transmitted while a blocking request awaits its response", o)
            if any(x.startswith("W:3.") for x in o2):
                bad = (bk, "second blocking request transmitted while the first awaits its response", o2)
        finally:
            r.close()
    chk.oblige("monitor:non-blocking-does-not-wait-for-blocking-response", bad is None, json.dumps(bad) if bad else "")
    if bad:
        chk.violation(bad[1], {"case": bad}, key="nb-waits:" + bad[0])
