"""C14 - blocking requests are mutually exclusive and served first-come first-served.

Proof: coq/Api/ApiProofs.v (invariants of the event-driven state machine Api.v, by induction over event histories).
Tie B: scenarios of concurrent requests x NCP events (matching / stale ACKs, responses, silence, cancellation, close,
loss, reset) injected at quiescent points of the REAL ZBOSS + ZbossNcpProtocol pair under a virtual-time asyncio
loop, compared step by step with the extracted model; monitor: the property's trace predicate on the impl log."""
import json

import api_tie as T
import access as X


def run(chk):
    chk.build(["consts", "schemas", "tables"])
    thorough = chk.tier == "thorough"
    chk.rule = ("online-generated scenarios (4-16 events + closing ticks; focus=blocking) over 8 request kinds (blocking / non-blocking, "
                "1-3 fragments) and the events issue, ACK(n), response, data-in, tick, cancel, close, loss, reset begin/end; "
                "non-trivial = at least two requests issued; distinct by event list")
    if getattr(chk, "model", None) is None:
        return chk.finish()
    mons = [("blocking", T.mon_blocking)]
    T.campaign(chk, 600 if thorough else 150, "blocking", mons)
    T.campaign(chk, 300 if thorough else 60, "mixed", mons)
    # every short history, systematically (depth 4 in the quick tier: 9520 histories; depth 5 in the thorough tier)
    T.exhaustive(chk, 5 if thorough else 4, mons)
    extra(chk, thorough)
    chk.assumptions = ["events are injected at quiescent points of the asyncio loop only (cancellation / I/O landing between two "
                       "loop iterations of one settle is outside the model)", "CPython asyncio Lock/Event/Future and async_timeout "
                       "semantics are modelled by the macro-step semantics of Api.v, not verified"]
    return chk.finish()


def replay(path):
    r = json.load(open(path))
    print(json.dumps(r, indent=1)[:3000])
    c = r.get("case", {})
    if "raw" in c:
        evs = [tuple(e) for e in c["raw"]]
        import common
        print("impl :", T.impl_run(evs))
        print("model:", T.model_run(common.Model(), evs))
    return 0


def extra(chk, thorough):
    """Non-blocking requests never wait for a blocking request's response."""
    import api_common as A
    bad = None
    for bk in ("b1", "b2"):
        r = A.Runner()
        try:
            r.step(("issue", 1, bk))
            for _ in range(A.KINDS[bk][2]):
                r.step(("ack", r.cur_seq()))
            # blocking request now waits for its response; the link is free
            o = r.step(("issue", 2, "nb1"))
            o2 = r.step(("issue", 3, "b1b"))
            chk.evaluations += 1
            if not any(x.startswith("W:2.0") for x in o):
                bad = (bk, "non-blocking request not transmitted while a blocking request awaits its response", o)
            if any(x.startswith("W:3.") for x in o2):
                bad = (bk, "second blocking request transmitted while the first awaits its response", o2)
        finally:
            r.close()
    chk.oblige("monitor:non-blocking-does-not-wait-for-blocking-response", bad is None, json.dumps(bad) if bad else "")
    if bad:
        chk.violation(bad[1], {"case": bad}, key="nb-waits:" + bad[0])

    # exclusion also holds ACROSS a reset + reconnect (the real reset() procedure): a blocking request that is in flight
    # when the NCP is reset still excludes the blocking requests issued after the reconnect, until it ends
    rbad = None
    for first, later in (("b1", "b1b"), ("b2", "b1"), ("b1", "b2")):
        evs = [("issue", 1, first)] + [("ack", -1)] * A.KINDS[first][2] + [("reset",), ("ack", -1), ("lost",),
                                                                       ("tick", 1000), ("tick", 500)]
        r = A.Runner()
        try:
            steps = []
            real = []
            for e in evs:
                if e == ("ack", -1):
                    e = ("ack", r.cur_seq())
                real.append(e)
                steps.append(r.step(e))
            reconnected = X.aget(r.api, "uart") is not None and r.real_reset.done()
            for e in [("issue", 2, later), ("ack", -1), ("ack", -1), ("tick", 1000), ("tick", 6000), ("ack", -1), ("ack", -1), ("tick", 6000)]:
                if e == ("ack", -1):
                    e = ("ack", r.cur_seq())
                real.append(e)
                steps.append(r.step(e))
        finally:
            r.close()
        chk.evaluations += 1
        chk.count("reset_reconnect_scenarios")
        m = None
        if not reconnected:
            m = "reset() did not reconnect in the scenario (harness assumption)"
        else:
            m = T.mon_blocking(real, [T.canon_step(st) for st in steps])
        if m is not None and rbad is None:
            rbad = (first, later, m, [" ".join(st) for st in steps])
    chk.oblige("monitor:blocking-exclusion-across-reset-and-reconnect", rbad is None, json.dumps(rbad)[:400] if rbad else "")
    if rbad:
        chk.violation("across a reset + reconnect: %s" % rbad[2], {"case": rbad}, key="reset-exclusion:%s:%s" % rbad[:2])

    # first-come first-served also between requests of the SAME command, and non-blocking requests of the same command do
    # not wait for each other's response
    fbad = None
    scen = [
        ("fcfs-same-command", [("issue", 1, "b1"), ("issue", 2, "b1"), ("issue", 3, "b1b"), ("ack", -1), ("rsp", "b1"), ("ack", -1),
                               ("rsp", "b1"), ("ack", -1), ("rsp", "b1b"), ("tick", 6000)], [1, 2, 3]),
        ("fcfs-timeout", [("issue", 1, "b1"), ("issue", 2, "b1"), ("issue", 3, "b1b"), ("ack", -1), ("tick", 6000), ("ack", -1),
                          ("tick", 6000), ("ack", -1), ("tick", 6000)], [1, 2, 3]),
        ("fcfs-cancel", [("issue", 1, "b1b"), ("issue", 2, "b1b"), ("issue", 3, "b1"), ("issue", 4, "b1b"), ("ack", -1), ("cancel", 1),
                         ("ack", -1), ("rsp", "b1b"), ("ack", -1), ("rsp", "b1"), ("ack", -1), ("rsp", "b1b"), ("tick", 6000)], [1, 2, 3, 4]),
    ]
    for name, evs, want in scen:
        r = A.Runner()
        try:
            steps, real = [], []
            for e in evs:
                if e == ("ack", -1):
                    e = ("ack", r.cur_seq())
                real.append(e)
                steps.append(T.canon_step(r.step(e)))
        finally:
            r.close()
        chk.evaluations += 1
        order = [rid for (_, rid, k) in T.writes(steps) if k == 0]
        m = T.mon_blocking(real, steps)
        if m is None and order != want:
            m = "blocking requests were started in the order %s, they were issued in the order %s" % (order, want)
        if m is not None and fbad is None:
            fbad = (name, m, [" ".join(st) for st in steps])
    for kind in ("nb1", "nb2"):
        r = A.Runner()
        try:
            r.step(("issue", 1, kind))
            for _ in range(A.KINDS[kind][2]):
                r.step(("ack", r.cur_seq()))
            o = r.step(("issue", 2, kind))      # same command; request 1 is waiting for its response, the link is free
            chk.evaluations += 1
            if not any(x.startswith("W:2.0") for x in o) and fbad is None:
                fbad = ("nb-same-command:" + kind, "a non-blocking request was not transmitted although the link is free: it waited "
                        "for the response of another request for the same command", o)
        finally:
            r.close()
    chk.oblige("monitor:first-come-first-served(same command)+non-blocking-same-command", fbad is None, json.dumps(fbad)[:400] if fbad else "")
    if fbad:
        chk.violation(fbad[1], {"case": fbad}, key="fcfs:" + fbad[0])

    # whatever the (schema-valid) radio configuration says: every option of zboss_config that the schema accepts, at
    # unusual values - mutual exclusion of blocking requests is not configurable
    cbad = None
    configs = [{"max_concurrent_requests": 2}, {"max_concurrent_requests": 8}, {"max_concurrent_requests": 1},
               {"max_concurrent_requests": "auto"}, {"request_timeout": 30}, {"tx_power": 5}, {"led_mode": "off"},
               {"skip_bootloader": False}, {"auto_reconnect_retry_delay": 1}]
    for zc in configs:
        try:
            r = A.Runner(zboss_config=zc)
        except Exception:  # noqa  not accepted by the schema in this tree: nothing to check
            continue
        try:
            steps, real = [], []
            for e in [("issue", 1, "b1"), ("ack", -1), ("issue", 2, "b1b"), ("issue", 3, "nb1"), ("issue", 4, "b2"), ("ack", -1),
                      ("tick", 300), ("rsp", "b1"), ("ack", -1), ("rsp", "b1b"), ("ack", -1), ("ack", -1), ("rsp", "b2"), ("tick", 6000)]:
                if e == ("ack", -1):
                    e = ("ack", r.cur_seq())
                real.append(e)
                steps.append(T.canon_step(r.step(e)))
        finally:
            r.close()
        chk.evaluations += 1
        chk.count("configurations")
        m = T.mon_blocking(real, steps)
        if m is not None and cbad is None:
            cbad = (zc, m, [" ".join(st) for st in steps])
    chk.oblige("monitor:blocking-exclusion-under-every-configuration-option", cbad is None, json.dumps(cbad)[:400] if cbad else "")
    if cbad:
        chk.violation("with zboss_config %s: %s" % (json.dumps(cbad[0]), cbad[1]), {"case": cbad}, key="config:%s" % sorted(cbad[0])[0])
