"""C16cstruct - development check of the CStruct / NVRAM part of C16 (engine "cstruct").

Proofs: coq/Wire/CStructProofs.v, coq/Wire/NvramProofs.v, property file coq/props/Props_C16cstruct.v.
Tie B and monitors: harness/cstruct_tie.py (run_cstruct, run_nvram) - the coordinator's C16 check calls the same
two functions."""
import json

import cstruct_tie


def run(chk):
    chk.build(["consts"], engine="cstruct")
    chk.rule = ("randomly generated CStruct subclasses (1..6 fields per level from uint8..uint64 / int8s..int64s / EUI64 / KeyData / "
                "nested generated structs, depth <= 3) x {packed, aligned} x random valid values x random suffixes x truncation "
                "points; random NVRAM record lists (address map 0..255, APS keys 0..300 / 2340) in the NCP's read layouts x "
                "suffixes x truncation points; non-trivial = more than one field or nesting or padding (structs), at least one "
                "record (NVRAM); distinct by (definition, mode) / (records, header, suffix)")
    model = getattr(chk, "model", None)
    cstruct_tie.run_cstruct(chk, model)
    cstruct_tie.run_nvram(chk, model)
    chk.exhaustive = False
    chk.assumptions = [
        "zigpy leaf types (uintN_t/intNs little-endian two's complement, EUI64, KeyData, zigpy Struct field order) are "
        "modelled (CInt/CBytes, fields decoded one after another) and tested by Tie B, not proved from zigpy's source",
        "signed integer fields: the model carries the unsigned byte pattern; the harness maps v -> v mod 2^(8 size)",
    ]
    return chk.finish()


def replay(path):
    r = json.load(open(path))
    print("%s: %s" % (r.get("kind"), r.get("what")))
    case = r.get("case")
    if not isinstance(case, dict):
        print(json.dumps(r, indent=1)[:3000])
        return 0
    return cstruct_tie.replay_case(case)
