"""C05 - every frame the host builds is well-formed and decodes back to itself.

Proof: coq/Link/FrameProofs.v.  Tie A(ii): accessors translated from source (LLHeaderGen.v).
Tie B: to_frame / serialize / stamping / ack / accessors against the model; monitor: the
independent spec decoder (extracted from LinkSpec.v) on the bytes the impl builds."""
import json

from common import hexs


def rand_header(rng):
    r = rng.random()
    if r < 0.1:
        return rng.choice([1, 0xFFFFFFFF, 0x00010000, 0x01000000, 0x0000FF00, 0x80000000])
    return rng.randrange(1, 1 << 32)


def run(chk):
    import zigpy_zboss.types as t
    from zigpy_zboss.frames import Frame, HLPacket, LLHeader
    from zigpy_zboss.checksum import CRC8
    from impl_link import make_proto, show_frame, stamp_all
    ok = chk.build(["consts", "bitfields", "tables"])
    rng = chk.rng
    model = getattr(chk, "model", None)
    thorough = chk.tier == "thorough"
    chk.rule = ("random 56/32-bit header words x all fields x boundary/random values; command frames with random "
                "headers and payload sizes 0..1200 (+ boundary sizes) x seq 0..3; all (ack seq, retransmit) pairs; "
                "non-trivial = payload non-empty or a field write that changes the word; distinct by canonical case")
    if model is None:
        chk.assumptions = ["model driver unavailable"]
        return chk.finish()

    # ---------------- accessors: canonical model vs impl (Tie B; also the fallback of Tie A(ii))
    LLF = ["signature", "size", "frame_type", "flags", "crc8"]
    LLW = ["signature", "size", "type", "flags", "crc8"]
    HLF = ["version", "control_type", "id"]
    HLW = ["version", "type", "id"]
    lines, expect = [], []
    n_acc = 3000 if thorough else 600
    for _ in range(n_acc):
        h = rng.choice([0, (1 << 56) - 1, rng.randrange(1 << 56), rng.randrange(1 << 56)])
        for k in range(5):
            lines.append("llget %d %d" % (k, h))
            expect.append(int(getattr(LLHeader(h), LLF[k])))
            v = rng.choice([0, 1, 0xFF, 0xFFFF, 0x1FF, 0x12345, rng.randrange(1 << 20)])
            lines.append("llwith %d %d %d" % (k, h, v))
            expect.append(int(getattr(LLHeader(h), "with_" + LLW[k])(v)))
            chk.note_case(("ll", k, h, v), nontrivial=expect[-1] != h)
        g = rng.choice([0, (1 << 32) - 1, rng.randrange(1 << 32)])
        for k in range(3):
            lines.append("hlget %d %d" % (k, g))
            try:
                expect.append(int(getattr(t.HLCommonHeader(g), HLF[k])))
            except ValueError:
                # control_type wraps the field in the ControlType enum: undefined members raise
                expect.append(None)
            v = rng.choice([0, 1, 2, 0xFF, 0xFFFF, 0x1FFFF, rng.randrange(1 << 20)])
            lines.append("hlwith %d %d %d" % (k, g, v))
            expect.append(int(getattr(t.HLCommonHeader(g), "with_" + HLW[k])(v)))
            chk.note_case(("hl", k, g, v), nontrivial=expect[-1] != g)
    outs = model.batch(lines)
    bad = None
    for l, e, o in zip(lines, expect, outs):
        if e is not None and str(e) != o:
            bad = (l, e, o)
            break
    chk.oblige("tieB:accessors", bad is None, repr(bad) if bad else "")
    try:
        import common as _c, os as _os
        g = open(_os.path.join(_c.COQ, "gen", "GenBitfields.v")).read()
        n_none, n_some = g.count(":= None."), g.count(":= Some ")
        chk.oblige("tieA:accessors-translated", True, "%d of %d header accessors translated from the source text and proved equal "
                   "to the canonical ones for all arguments; %d have a source shape the translator does not know and are tied by "
                   "Tie B (tieB:accessors) only" % (n_some, n_some + n_none, n_none))
    except OSError:
        pass
    chk.count("accessor_cases", len(lines))
    if bad:
        # monitor: independence/readback law checked on the impl alone
        chk.violation("header accessor differs from the canonical bit-field: %s impl=%s model=%s" % bad,
                      {"call": bad[0], "impl": bad[1], "model": bad[2]}, key="accessor:" + bad[0].split()[0] + bad[0].split()[1])
    # monitor on impl alone: field independence law
    bad = None
    for _ in range(400 if thorough else 100):
        h = LLHeader(rng.randrange(1 << 56))
        for k in range(5):
            v = rng.randrange(1 << 16)
            h2 = getattr(h, "with_" + LLW[k])(v)
            for j in range(5):
                a, b = int(getattr(h, LLF[j])), int(getattr(h2, LLF[j]))
                w = [16, 16, 8, 8, 8][k]
                if (j != k and a != b) or (j == k and b != v % (1 << w)):
                    bad = (int(h), LLW[k], v, LLF[j], a, b)
            chk.evaluations += 1
    chk.oblige("monitor:field-independence-on-impl", bad is None, repr(bad) if bad else "")
    if bad:
        chk.violation("changing header field %s altered field %s: %r" % (bad[1], bad[3], bad), {"case": bad}, key="indep:%s:%s" % (bad[1], bad[3]))

    # ---------------- frames: to_frame-shaped construction, stamping, serialize
    sizes = [0, 1, 2, 3, 236, 237, 238, 239, 240, 241, 242, 243, 244, 246, 247, 248, 500, 1200]
    n_fr = 1500 if thorough else 300
    cases = []
    for i in range(n_fr):
        ln = sizes[i] if i < len(sizes) else (rng.randrange(0, 1200) if rng.random() < 0.3 else rng.randrange(0, 260))
        cases.append((rand_header(rng), bytes(rng.randrange(256) for _ in range(ln)), rng.randrange(4)))
    lines = ["toframe %d %s %d" % (h, hexs(d), s) for h, d, s in cases]
    outs = model.batch(lines)
    mon = []
    bad = None
    for (h, d, s), o in zip(cases, outs):
        # the impl path of CommandBase.to_frame (header + payload chunks) and uart stamping
        hl = HLPacket(t.HLCommonHeader(h), t.Bytes(d))
        ll = (LLHeader().with_signature(Frame.signature).with_size(hl.length + 5)
              .with_type(t.TYPE_ZBOSS_NCP_API_HL).with_flags(t.LLFlags.LastFrag | t.LLFlags.FirstFrag))
        fr = Frame(ll, hl)
        raw = fr.serialize()
        st = stamp_all([fr], s)[0]
        got = "%s %s" % (hexs(raw), hexs(st))
        chk.note_case((h, d, s), nontrivial=len(d) > 0)
        chk.count("payload_%s" % ("0" if not d else "1-243" if len(d) <= 243 else ">243"))
        if got != o and bad is None:
            bad = (h, hexs(d), s, got, o)
        mon.append((h, d, s, st))
    chk.oblige("tieB:to_frame+stamp+serialize", bad is None, repr(bad)[:300] if bad else "")
    chk.sample({"header": cases[3][0], "payload": hexs(cases[3][1]), "seq": cases[3][2], "model": outs[3][:120]})
    # monitor: independent spec decoder on impl bytes
    outs = model.batch(["specdec %s" % hexs(st) for (_, _, _, st) in mon])
    mbad = None
    for (h, d, s, st), o in zip(mon, outs):
        size = len(st) - 2
        exp_prefix = "F(%d,%d," % (size, 0xC0 | (s << 2))
        exp_suffix = ",data,%d,%s) 0" % (h, hexs(d))
        if not (o.startswith(exp_prefix) and o.endswith(exp_suffix)):
            mbad = (h, hexs(d), s, hexs(st), o)
            break
        # library decoder inverts too
        f, rest = Frame.deserialize(st)
        if rest != b"" or int(f.hl_packet.header) != h or bytes(f.hl_packet.data) != d or f.serialize() != st:
            mbad = (h, hexs(d), s, hexs(st), "library decoder: " + show_frame(f))
            break
    chk.oblige("monitor:spec-decoder-on-impl-frames", mbad is None, repr(mbad)[:300] if mbad else "")
    if bad or mbad:
        b = mbad or bad
        chk.violation("frame built by the host is not well-formed / not self-inverse: header=%s payload=%s seq=%s -> %s"
                      % (b[0], b[1], b[2], b[-1][:200]),
                      {"header": b[0], "payload": b[1], "seq": b[2], "detail": [str(x) for x in b[3:]]},
                      key="frame:len%d" % (len(b[1]) // 2 if b[1] != "-" else 0))

    # ---------------- the frame of the SAME command object, built again for every transmission (as api.request does) and
    # stamped in different numbering states: each time exactly first|last|current number, valid checksum
    import zigpy_zboss.commands as _c
    rbad = None
    for cmd in (_c.NcpConfig.GetModuleVersion.Req(TSN=9), _c.ZDO.PermitJoin.Req(TSN=3, DestNWK=t.NWK(0x1234), PermitDuration=t.uint8_t(60), TCSignificance=t.uint8_t(1))
                if hasattr(_c.ZDO, "PermitJoin") else _c.NcpConfig.GetZigbeeRole.Req(TSN=3)):
        for sq in (1, 2, 3, 1, 2, 0, 3):
            st = stamp_all([cmd.to_frame()], sq)[0]
            o = model.batch(["specdec %s" % hexs(st)])[0]
            chk.note_case(("same-object", type(cmd).__qualname__, sq))
            if o == "NONE" or int(o[2:].split(",")[1]) != (0xC0 | (sq << 2)):
                rbad = rbad or (type(cmd).__qualname__, sq, hexs(st), o)
    chk.oblige("monitor:same-command-object-rebuilt-and-stamped-per-transmission", rbad is None, repr(rbad) if rbad else "")
    if rbad:
        chk.violation("the frame of a %s object sent again in numbering state %d is %s (%s): flags must be first|last|%d"
                      % (rbad[0], rbad[1], rbad[2], rbad[3], rbad[1]), {"case": rbad}, key="same-object-frame")

    # ---------------- fragments the host constructs: stamped as send() does, decoded by the independent decoder
    from props import c09
    fbad = None
    totals = list(range(5, 12)) + list(range(240, 256)) + [490, 491, 494, 495, 496, 497, 498, 741, 742, 743, 744, 745] + \
        [rng.randrange(248, 1300) for _ in range(60 if thorough else 15)]
    for total in totals:
        h = rand_header(rng)
        d = bytes(rng.randrange(256) for _ in range(total - 4))
        try:
            frs = c09.impl_fragments(h, d)
        except Exception as e:  # noqa
            fbad = (h, hexs(d), total, "handle_tx_fragmentation raised %s" % type(e).__name__)
            break
        seq = rng.randrange(4)
        wire = stamp_all(frs, seq)
        outs = model.batch(["specdec %s" % hexs(b) for b in wire])
        chk.note_case(("frag", total, h), nontrivial=len(frs) > 1)
        chk.count("fragmented_messages")
        for i, (b, o) in enumerate(zip(wire, outs)):
            if o == "NONE" or not o.endswith(" 0"):
                fbad = (h, hexs(d), total, "fragment %d/%d is not a well-formed frame consumed exactly: %s -> %s" % (i + 1, len(wire), hexs(b)[:40], o))
                break
            size, fl = int(o[2:].split(",")[0]), int(o[2:].split(",")[1])
            if size != len(b) - 2 or (fl >> 2) & 3 != seq:
                fbad = (h, hexs(d), total, "fragment %d/%d: length field %d but %d bytes follow the marker (seq %d)" % (i + 1, len(wire), size, len(b) - 2, (fl >> 2) & 3))
                break
            # the bytes on the wire say where the message starts and ends: first flag on frame 1 only, last flag on the
            # last frame only (a single frame carries both) - otherwise they do not decode back to what was built
            if bool(fl & 0x40) != (i == 0) or bool(fl & 0x80) != (i == len(wire) - 1):
                fbad = (h, hexs(d), total, "frame %d/%d of the message carries flags 0x%02x (first flag %s, last flag %s)"
                        % (i + 1, len(wire), fl, "expected" if i == 0 else "not expected", "expected" if i == len(wire) - 1 else "not expected"))
                break
        if fbad:
            break
    chk.oblige("monitor:spec-decoder-on-impl-fragments", fbad is None, repr(fbad)[:300] if fbad else "")
    if fbad:
        chk.violation("fragment built by the host is not well-formed: message of %d bytes: %s" % (fbad[2], fbad[3]),
                      {"header": fbad[0], "payload": fbad[1], "total": fbad[2], "why": fbad[3]}, key="fragment:residue=%d" % (fbad[2] % 247))

    # ---------------- acknowledgements: all (seq, retransmit)
    bad = None
    lines = ["ack %d %d" % (q, r) for q in range(4) for r in range(2)]
    outs = model.batch(lines)
    dec = model.batch(["specdec %s" % o for o in outs])
    for (q, r), o, dd in zip([(q, r) for q in range(4) for r in range(2)], outs, dec):
        got = Frame.ack(q, bool(r)).serialize()
        chk.note_case(("ack", q, r))
        try:
            f, rest = Frame.deserialize(got)
        except Exception as e:  # noqa  the library's own decoder refuses the acknowledgement it built
            bad = (q, r, hexs(got), o, "library decoder raised %s" % type(e).__name__)
            continue
        if hexs(got) != o or not dd.startswith("F(5,%d," % (1 | (q << 4) | (2 if r else 0))) or not dd.endswith(",ack,-,-) 0") \
                or rest != b"" or not f.is_ack:
            bad = (q, r, hexs(got), o, dd)
    chk.oblige("tieB+monitor:ack-frames(all 8)", bad is None, repr(bad) if bad else "")
    if bad:
        chk.violation("acknowledgement frame wrong: %r" % (bad,), {"case": bad}, key="ack:%d:%d" % bad[:2])
    chk.assumptions = ["zigpy uintN_t.serialize()/deserialize() are little-endian fixed width (tested through Tie B)",
                       "stamping is observed on a real ZbossNcpProtocol (its two stamping helpers, or send() under the virtual loop)"]
    return chk.finish()


def replay(path):
    print(open(path).read()[:3000])
    return 0
