"""C12 - a response resolves only the oldest matching waiter, and every matching callback exactly once.

Proof: coq/Api/DispatchProofs.v (model coq/Api/Dispatch.v + coq/Api/Match.v, engine "match").
Tie B: histories of {wait_for_responses(patterns), register_indication_listeners(patterns, cb), future.cancel(),
frame_received(command frame), request(Req), settle} over five real command classes with equal / different /
overlapping patterns, run on the REAL zigpy_zboss.api.ZBOSS object inside a real asyncio loop with virtual time.
All events between two settles execute inside ONE loop callback (= one event-loop step), so a burst of commands
sees resolved / cancelled waiters that are still registered; settle = the loop runs until no handle is ready (the
futures' done-callbacks remove the finished listeners).  Observed per received command: which futures went from
pending to done and with what, every other future's state, which callbacks ran with what.  The model (extracted
`run`) gets the same history.
Monitor (no model): the property's rule evaluated on those observations with an independent field-wise matcher -
the future resolved is exactly the earliest-registered one that was still pending and has a matching given
pattern, it holds the received command, nothing else changed, the callbacks run are exactly those with a matching
given pattern, once each, with the received command; a request() returns its own Rsp class."""
import asyncio
import itertools
import json

from common import BuildBroken
import access as X
from props.c17 import Enc, ref_match, domain, describe, rebuild, mk_api


class StubUart:
    """request() only needs an object to 'send' through; the link layer is C07/C11's subject."""

    async def send(self, frame):
        return None

    def close(self):
        pass


def frame_of(cmd):
    """The frame carrying cmd's bound parameters (works for truncated failure responses, which to_frame refuses)."""
    import zigpy_zboss.types as t
    from zigpy_zboss.frames import Frame, HLPacket, LLHeader
    chunks = []
    for p in cmd.schema:
        v = getattr(cmd, p.name)
        if v is not None:
            chunks.append(v.serialize())
    hl = HLPacket(cmd.header, t.Bytes(b"".join(chunks)))
    ll = (LLHeader().with_signature(Frame.signature).with_size(hl.length + 5)
          .with_type(t.TYPE_ZBOSS_NCP_API_HL).with_flags(t.LLFlags.LastFrag | t.LLFlags.FirstFrag))
    return Frame(ll, hl)


# ---------------------------------------------------------------------------------------------------------------
# histories.  Events (labels identify registrations independently of their position, so histories can be shrunk):
#   ("W", label, [patterns])        wait_for_responses
#   ("C", label, [patterns], kind)  register_indication_listeners; kind 0 plain, 1 raises after recording, 2 returns a coroutine
#   ("Q", label, ReqClass)          loop.create_task(api.request(Req(TSN=1)))  - registers Rsp(partial=True) when the task starts
#   ("X", label)                    cancel the future of waiter `label`
#   ("R", command)                  frame_received(frame_of(command))
#   ("S",)                          settle
def normalise(evs):
    """Every history ends with a settle; request events go to the end of their loop step (the task only starts when
    the loop runs), cancellations of unknown labels are dropped."""
    out, seg, qs = [], [], []
    known = set()
    for ev in list(evs) + [("S",)]:
        if ev[0] == "S":
            out += seg + qs + [ev]
            seg, qs = [], []
        elif ev[0] == "Q":
            qs.append(ev)
            known.add(ev[1])
        elif ev[0] == "X":
            if ev[1] in known and ev[1] not in [q[1] for q in qs]:     # a request issued in this very step has not started yet
                seg.append(ev)
        else:
            if ev[0] in ("W", "C"):
                known.add(ev[1])
            seg.append(ev)
    while len(out) >= 2 and out[-1][0] == "S" and out[-2][0] == "S":
        out.pop()
    return out


def received(cmd):
    """The command object the code will build from cmd's frame."""
    return type(cmd).from_frame(frame_of(cmd))


def model_line(evs, enc):
    ids = {}
    toks = []
    n = 0
    for ev in evs:
        k = ev[0]
        if k in ("W", "C"):
            ids[ev[1]] = n
            n += 1
            toks.append("%s=%s" % (k, "|".join(enc.tok(p) for p in ev[2])))
        elif k == "Q":
            ids[ev[1]] = n
            n += 1
            toks.append("W=%s" % enc.tok(ev[2].Rsp(partial=True)))
        elif k == "X":
            toks.append("X=%d" % ids[ev[1]])
        elif k == "R":
            toks.append("R=%s" % enc.tok(received(ev[1])))
        else:
            toks.append("S")
    return "hist " + " ".join(toks)


def strip_model(out):
    """Model line -> (observations with the return-value flag of frame_received dropped, futures)."""
    parts = out.split(" // ")
    obs = []
    for o in parts[0].split(" ; "):
        if o.startswith("recv:"):
            r, cb, _ = o[5:].split("/")
            o = "recv:%s/%s" % (r, ",".join(sorted(cb.split(","), key=lambda x: int(x)) if cb else []))
        obs.append(o)
    return obs, (parts[1].strip() if len(parts) > 1 else "")


def fstate(f, enc):
    if not f.done():
        return "P"
    if f.cancelled():
        return "X"
    if f.exception() is not None:
        return "EXC"
    return "D(%s)" % enc.tok(f.result())


def run_history(evs, enc):
    """Run a normalised history on the real ZBOSS object.  Returns (observations, futures string, monitor failure or None)."""
    from vloop import VLoop
    loop = VLoop()
    asyncio.set_event_loop(loop)
    try:
        api = mk_api()
        X.aset(api, "uart", StubUart())
        ids, kinds, pats_of = {}, {}, {}
        futs, tasks, reqs = {}, {}, {}
        by_task = {}
        called = []
        obs = []
        mon = []
        depth = [0]
        stats = {"stale-matching-waiter-skipped": 0, "cancels": 0, "requests-returned": 0}
        fresh_done = set()      # waiters finished since the last settle: done, but their listener is still registered

        def wrap(name):
            real = getattr(api, name)

            def w(*a, **kw):
                depth[0] += 1
                try:
                    r = real(*a, **kw)
                finally:
                    depth[0] -= 1
                if depth[0] == 0:
                    tk = asyncio.current_task()
                    if tk is not None and tk in by_task:
                        futs[by_task[tk]] = r[0] if isinstance(r, tuple) else r
                return r
            return w
        # the future request() waits on is only visible from inside; record it as it is handed out
        api.wait_for_response = wrap("wait_for_response")
        api.wait_for_responses = wrap("wait_for_responses")

        async def noop():
            return None

        def do(ev):
            k = ev[0]
            if k == "W":
                i = ids[ev[1]] = len(ids)
                kinds[i], pats_of[i] = "W", list(ev[2])
                try:
                    futs[i] = api.wait_for_responses(list(ev[2]))
                    obs.append("reg:%d" % i)
                except ValueError:
                    obs.append("regerr")
            elif k == "C":
                i = ids[ev[1]] = len(ids)
                kinds[i], pats_of[i] = "C", list(ev[2])
                kind = ev[3]

                def cb(cmd, i=i, kind=kind):
                    called.append((i, cmd))
                    if kind == 1:
                        raise RuntimeError("callback failure (must not disturb the dispatch)")
                    if kind == 2:
                        return noop()
                try:
                    api.register_indication_listeners(list(ev[2]), cb)
                    obs.append("reg:%d" % i)
                except ValueError:
                    obs.append("regerr")
            elif k == "Q":
                i = ids[ev[1]] = len(ids)
                kinds[i], pats_of[i] = "W", [ev[2].Rsp(partial=True)]
                reqs[i] = ev[2]
                tasks[i] = loop.create_task(api.request(ev[2](TSN=1)))
                by_task[tasks[i]] = i
                obs.append("reg:%d" % i)
            elif k == "X":
                f = futs.get(ids[ev[1]])
                r = 1 if (f is not None and f.cancel()) else 0
                obs.append("cancel:%d" % r)
                if r:
                    stats["cancels"] += 1
                    fresh_done.add(ids[ev[1]])
            elif k == "R":
                rc = received(ev[1])
                rtok = enc.tok(rc)
                before = {i: fstate(f, enc) for i, f in futs.items()}
                n0 = len(called)
                exc = None
                try:
                    api.frame_received(frame_of(ev[1]))
                except Exception as e:  # noqa
                    exc = e                 # the rule below decides whether the dispatch was cut short
                after = {i: fstate(f, enc) for i, f in futs.items()}
                now = called[n0:]
                resolved = [i for i in sorted(futs) if before[i] == "P" and after[i].startswith("D")]
                obs.append("recv:%s/%s%s" % (",".join(map(str, resolved)), ",".join(map(str, sorted(i for i, _ in now))),
                                             "" if exc is None else "!raised:%s" % type(exc).__name__))
                tail = "" if exc is None else " (frame_received raised %r)" % exc
                # ---- monitor: the rule of the property on these observations
                elig = [i for i in sorted(futs) if before[i] == "P" and any(ref_match(p, rc) for p in pats_of[i])]
                if any(any(ref_match(p, rc) for p in pats_of[i]) for i in fresh_done):
                    stats["stale-matching-waiter-skipped"] += 1
                fresh_done.update(resolved)
                exp = elig[:1]
                if resolved != exp:
                    mon.append(("C12:waiter-routing", "received %s: resolved waiter(s) %s, but the earliest-registered pending "
                                "waiter with a matching pattern is %s (pending matching: %s)%s" % (rc, resolved, exp, elig, tail)))
                for i in resolved:
                    if after[i] != "D(%s)" % rtok:
                        mon.append(("C12:waiter-routing", "waiter %d resolved with %s instead of the received %s" % (i, after[i], rtok)))
                other = [i for i in sorted(futs) if after[i] != before[i] and i not in resolved]
                if other:
                    mon.append(("C12:waiter-routing", "received %s: futures %s changed state (%s)"
                                % (rc, other, [(before[i], after[i]) for i in other])))
                due = sorted(i for i in kinds if kinds[i] == "C" and i in registered_cb and any(ref_match(p, rc) for p in pats_of[i]))
                got = sorted(i for i, _ in now)
                if got != due:
                    mon.append(("C12:callback-invocations", "received %s: callbacks invoked %s, registered with a matching pattern %s%s"
                                % (rc, got, due, tail)))
                for i, a in now:
                    if enc.tok(a) != rtok:
                        mon.append(("C12:callback-invocations", "callback %d got %s instead of the received %s" % (i, a, rc)))
            else:
                raise AssertionError(ev)

        registered_cb = set()
        segs, cur = [], []
        for ev in evs:
            if ev[0] == "S":
                segs.append(cur)
                cur = []
            else:
                cur.append(ev)

        def run_seg(seg):
            for ev in seg:
                try:
                    n = len(obs)
                    do(ev)
                    if ev[0] == "C" and obs[-1].startswith("reg:"):
                        registered_cb.add(ids[ev[1]])
                except Exception as e:  # noqa
                    del obs[n:]
                    obs.append("exc:%s" % type(e).__name__)
                    mon.append(("C12:exception", "%s on event %s" % (repr(e), ev[0])))
        for seg in segs:
            loop.call_soon(run_seg, seg)
            loop.settle()
            fresh_done.clear()
            obs.append("settled")
        # a request returns the command its waiter got, of its own Rsp class
        for i, tk in tasks.items():
            f = futs.get(i)
            if f is None:
                mon.append(("C12:request-type", "request %d never registered a waiter" % i))
            elif f.done() and not f.cancelled():
                if not tk.done() or tk.cancelled() or tk.exception() is not None:
                    mon.append(("C12:request-type", "request %d did not return although its response arrived" % i))
                elif type(tk.result()) is not reqs[i].Rsp or tk.result() is not f.result():
                    mon.append(("C12:request-type", "request %s returned %s" % (reqs[i].__qualname__, tk.result())))
                else:
                    stats["requests-returned"] += 1
        fs = " ".join("%d=%s" % (i, fstate(futs[i], enc)) for i in sorted(futs))
        for tk in tasks.values():
            if not tk.done():
                tk.cancel()
        loop.settle()
        return obs, fs, (mon[0] if mon else None), stats
    finally:
        asyncio.set_event_loop(None)
        loop.close()


# ---------------------------------------------------------------------------------------------------------------
class Universe:
    def __init__(self):
        import zigpy_zboss.commands as c
        self.classes = [c.ZDO.DevAnnceInd.Ind, c.NcpConfig.GetZigbeeRole.Rsp, c.APS.Bind.Rsp, c.ZDO.IeeeAddrReq.Rsp,
                        c.NcpConfig.GetModuleVersion.Rsp]
        self.reqs = [c.NcpConfig.GetModuleVersion.Req, c.NcpConfig.GetZigbeeRole.Req]
        self.doms = {}
        for cls in self.classes:
            self.doms[cls] = [domain(p.type)[:2] for p in cls.schema]
        self.status_idx = {cls: [p.name for p in cls.schema].index("StatusCode") for cls in self.classes
                           if "StatusCode" in [p.name for p in cls.schema]}

    def pattern(self, rng, cls=None, p_spec=None):
        cls = cls or rng.choice(self.classes)
        p_spec = rng.choice([0.0, 0.25, 0.5]) if p_spec is None else p_spec
        kw = {p.name: rng.choice(d) for p, d in zip(cls.schema, self.doms[cls]) if rng.random() < p_spec}
        return cls(partial=True, **kw)

    def command(self, rng, like=None):
        """A deliverable command: full, or with trailing optional parameters absent, or a failure response cut short
        after its status code.  If `like` is given it is completed from that pattern (so it matches it)."""
        cls = type(like) if like is not None else rng.choice(self.classes)
        vals = []
        for p, d in zip(cls.schema, self.doms[cls]):
            v = getattr(like, p.name) if like is not None else None
            vals.append(v if v is not None else rng.choice(d))
        names = [p.name for p in cls.schema]
        keep = len(names)
        opt = [i for i, p in enumerate(cls.schema) if p.optional]
        r = rng.random()
        if opt and r < 0.35:
            keep = rng.randrange(opt[0], len(names) + 1)
        elif cls in self.status_idx and self.status_idx[cls] + 1 < len(names) and r < 0.25:
            si = self.status_idx[cls]
            if int(vals[si]) != 0:
                keep = si + 1
        return cls(partial=True, **dict(zip(names[:keep], vals[:keep])))


def gen_history(rng, U, depth):
    evs = []
    labels_w, pats_seen = [], []
    lab = 0
    for _ in range(depth):
        r = rng.random()
        if r < 0.24:
            n = rng.choice([1, 1, 1, 2, 2, 3, 0]) if rng.random() < 0.9 else 4
            ps = []
            for _ in range(n):
                if pats_seen and rng.random() < 0.4:
                    ps.append(rng.choice(pats_seen))            # equal to an earlier pattern
                else:
                    ps.append(U.pattern(rng))
            pats_seen += ps
            evs.append(("W", lab, ps))
            labels_w.append(lab)
            lab += 1
        elif r < 0.36:
            n = rng.choice([1, 1, 2, 3])
            ps = [rng.choice(pats_seen) if pats_seen and rng.random() < 0.4 else U.pattern(rng) for _ in range(n)]
            pats_seen += ps
            evs.append(("C", lab, ps, rng.choice([0, 0, 1, 2])))
            lab += 1
        elif r < 0.41:
            evs.append(("Q", lab, rng.choice(U.reqs)))
            labels_w.append(lab)
            lab += 1
        elif r < 0.51:
            if labels_w:
                evs.append(("X", rng.choice(labels_w)))
        elif r < 0.86:
            like = rng.choice(pats_seen) if pats_seen and rng.random() < 0.7 else None
            cmd = U.command(rng, like)
            evs.append(("R", cmd))
            if rng.random() < 0.35:                              # burst: the same or a similar command again, same loop step
                evs.append(("R", cmd if rng.random() < 0.6 else U.command(rng, like)))
        else:
            evs.append(("S",))
    return evs


def small_alphabet(U):
    """Letters for the exhaustive short histories: two overlapping patterns, a foreign one, cancellations, two commands, settle."""
    import zigpy_zboss.commands as c
    A = c.ZDO.DevAnnceInd.Ind
    d = U.doms[A]
    pa = A(partial=True, NWK=d[0][0])
    pg = A(partial=True)
    c1 = A(partial=True, NWK=d[0][0], IEEE=d[1][0], MacCap=d[2][0])       # matched by pa and pg
    c2 = A(partial=True, NWK=d[0][1], IEEE=d[1][0], MacCap=d[2][0])       # matched by pg only
    return [("W", [pa]), ("W", [pg]), ("C", [pa, pg]), ("Xn", 0), ("Xn", 1), ("R", c1), ("R", c2), ("S",)]


def from_letters(letters):
    evs, ws = [], []
    lab = 0
    for l in letters:
        if l[0] == "W":
            evs.append(("W", lab, l[1]))
            ws.append(lab)
            lab += 1
        elif l[0] == "C":
            evs.append(("C", lab, l[1], 0))
            lab += 1
        elif l[0] == "Xn":
            if l[1] < len(ws):
                evs.append(("X", ws[l[1]]))
        else:
            evs.append(l)
    return evs


def ev_json(evs):
    out = []
    for ev in evs:
        if ev[0] in ("W", "C"):
            out.append([ev[0], ev[1], [describe(p) for p in ev[2]]] + list(ev[3:]))
        elif ev[0] == "Q":
            out.append(["Q", ev[1], int(ev[2].header)])
        elif ev[0] == "R":
            out.append(["R", describe(ev[1])])
        else:
            out.append(list(ev))
    return out


def ev_from_json(js):
    import zigpy_zboss.commands as c
    evs = []
    for e in js:
        if e[0] in ("W", "C"):
            evs.append(tuple([e[0], e[1], [rebuild(d) for d in e[2]]] + list(e[3:])))
        elif e[0] == "Q":
            evs.append(("Q", e[1], [k for h, k in c.COMMANDS_BY_ID.items() if int(h) == e[2]][0]))
        elif e[0] == "R":
            evs.append(("R", rebuild(e[1])))
        else:
            evs.append(tuple(e))
    return evs


def ev_text(evs):
    out = []
    for ev in evs:
        if ev[0] in ("W", "C"):
            out.append("%s#%d[%s]" % (ev[0], ev[1], "; ".join(str(p) for p in ev[2])))
        elif ev[0] == "Q":
            out.append("Q#%d %s" % (ev[1], ev[2].__qualname__))
        elif ev[0] == "X":
            out.append("X#%d" % ev[1])
        elif ev[0] == "R":
            out.append("R %s" % ev[1])
        else:
            out.append("S")
    return out


def shrink(evs, enc, key):
    cur = list(evs)
    changed = True
    while changed:
        changed = False
        for i in range(len(cur)):
            cand = normalise(cur[:i] + cur[i + 1:])
            if not cand or len(cand) >= len(cur):
                continue
            try:
                m = run_history(cand, enc)[2]
            except Exception:
                continue
            if m is not None and m[0] == key:
                cur, changed = cand, True
                break
    return cur


def run(chk):
    chk.build([], engine="match")
    rng = chk.rng
    thorough = chk.tier == "thorough"
    depth_ex = 5 if thorough else 4
    chk.rule = ("histories over {register waiter, register callback (plain / raising / coroutine), request(), cancel, receive, "
                "settle} on the real ZBOSS object; all events between two settles run in one event-loop step. All histories of "
                "depth <= %d over an 8-letter alphabet (specific + general pattern of one class, a callback with both, cancel "
                "1st / 2nd waiter, a command matched by both / by the general one only, settle) + random histories of depth "
                "6..30 over 5 real classes (patterns of 0..4 entries, equal / overlapping / other-class, responses with absent "
                "optional parameters and failure responses cut short, bursts). Non-trivial: a received command with at least "
                "one pending matching waiter or matching callback; distinct by the model's history line." % depth_ex)
    if getattr(chk, "model", None) is None:
        return chk.finish()
    enc = Enc()
    U = Universe()
    # sanity of the harness's own frame builder against to_frame on full commands
    for cls in U.classes:
        full = cls(**{p.name: d[0] for p, d in zip(cls.schema, U.doms[cls])})
        assert frame_of(full).serialize() == full.to_frame().serialize()
    hist = []
    alpha = small_alphabet(U)
    for dpt in range(1, depth_ex + 1):
        for combo in itertools.product(alpha, repeat=dpt):
            hist.append(normalise(from_letters(combo)))
    n_ex = len(hist)
    for _ in range(12000 if thorough else 1200):
        hist.append(normalise(gen_history(rng, U, rng.randrange(6, 31))))
    lines = [model_line(e, enc) for e in hist]
    mouts = chk.model.batch(lines)
    tie_bad = mon_bad = None
    n_recv = n_res = n_cb = n_burst = 0
    for k, (evs, line, mo) in enumerate(zip(hist, lines, mouts)):
        mobs, mfuts = strip_model(mo)
        try:
            obs, fs, mon, stats = run_history(evs, enc)
        except Exception as e:  # noqa
            obs, fs, mon, stats = ["harness-exc:%r" % e], "", ("C12:exception", "harness failure %r" % e), {}
        for sk, sv in stats.items():
            chk.count(sk, sv)
        recvs = [o for o in obs if o.startswith("recv:")]
        hit = [o for o in recvs if o != "recv:/"]
        n_recv += len(recvs)
        n_res += sum(1 for o in recvs if o[5:].split("/")[0])
        n_cb += sum(len(o[5:].split("/")[1].split(",")) for o in recvs if o[5:].split("/")[1])
        burst = any(evs[i][0] == "R" and evs[i + 1][0] == "R" for i in range(len(evs) - 1))
        n_burst += burst
        chk.note_case(line, nontrivial=bool(hit))
        chk.count("exhaustive-short" if k < n_ex else "random")
        if (obs != mobs or fs != mfuts) and tie_bad is None:
            tie_bad = {"history": ev_text(evs), "impl": obs + [fs], "model": mobs + [mfuts]}
        if mon is not None and mon_bad is None:
            small = shrink(evs, enc, mon[0])
            o2, f2, m2, _ = run_history(small, enc)
            m2 = m2 or mon
            mo2 = strip_model(chk.model.batch([model_line(small, enc)])[0])
            mon_bad = (m2[1], ev_text(small))
            chk.violation(m2[1] + "   history: " + " | ".join(ev_text(small)),
                          {"history": ev_json(small), "text": ev_text(small), "impl": o2 + [f2], "model": mo2[0] + [mo2[1]],
                           "monitor": m2[1]}, key=m2[0])
    chk.count("received-commands", n_recv)
    chk.count("received-resolving-a-waiter", n_res)
    chk.count("callback-invocations", n_cb)
    chk.count("histories-with-burst", n_burst)
    # the SAME callable registered several times (different patterns of one command type, another command type, the same
    # pattern twice): each registration is a registration - invoked once per matching registration, with the command
    sc_bad = None
    try:
        import zigpy_zboss.commands as _c
        import zigpy_zboss.config as _conf
        from zigpy_zboss.api import ZBOSS as _Z
        Rsp = _c.NcpConfig.GetZigbeeRole.Rsp
        Ind = _c.ZDO.DevAnnceInd.Ind
        import zigpy.types as _zt
        regs = [[Rsp(TSN=1, partial=True)], [Rsp(TSN=2, partial=True)], [Rsp(partial=True)], [Ind(partial=True)],
                [Rsp(TSN=2, partial=True)], [Rsp(TSN=1, partial=True), Ind(NWK=_zt.NWK(7), partial=True)]]
        from zigpy_zboss.types import commands as _tc
        cmds = [Rsp(TSN=t_, StatusCat=_tc.StatusCategory(0), StatusCode=_tc.StatusCodeGeneric(0), DeviceRole=_tc.DeviceRole(r_))
                for t_ in (1, 2, 3) for r_ in (0, 1)] + \
               [Ind(NWK=_zt.NWK(n_), IEEE=_zt.EUI64.convert("00:11:22:33:44:55:66:77"), MacCap=0) for n_ in (7, 8)]
        for order in (list(range(len(regs))), list(reversed(range(len(regs)))), [0, 1], [1, 0], [2, 0, 4, 1]):
            api = _Z(_conf.CONFIG_SCHEMA({_conf.CONF_DEVICE: {_conf.CONF_DEVICE_PATH: "/dev/null"}}))
            got = []

            def shared(cmd):
                got.append(cmd)
            for j in order:
                api.register_indication_listeners(list(regs[j]), shared)
            for cmd in cmds:
                del got[:]
                api.frame_received(cmd.to_frame())
                want = sum(1 for j in order if any(p.matches(cmd) for p in regs[j]))
                chk.evaluations += 1
                if (len(got) != want or any(g != cmd for g in got)) and sc_bad is None:
                    sc_bad = ([[str(p) for p in regs[j]] for j in order], str(cmd), len(got), want)
    except Exception as e:  # noqa
        sc_bad = sc_bad or ("harness", "%s: %s" % (type(e).__name__, e), -1, -1)
    chk.oblige("monitor:same-callable-registered-several-times", sc_bad is None, json.dumps(sc_bad, default=str)[:300] if sc_bad else "")
    if sc_bad:
        chk.violation("one callable registered with %s: on receiving %s it was invoked %s time(s); %s of its registrations match"
                      % sc_bad, {"registrations": sc_bad[0], "command": sc_bad[1]}, key="C12:same-callable")
    chk.oblige("tieB:ZBOSS-listeners-vs-model(%d histories)" % len(hist), tie_bad is None, json.dumps(tie_bad, default=str)[:300] if tie_bad else "")
    chk.oblige("monitor:oldest-pending-matching-waiter+matching-callbacks-once+request-type", mon_bad is None,
               json.dumps(mon_bad, default=str)[:300] if mon_bad else "")
    if tie_bad and not mon_bad:
        chk.broken.append(BuildBroken("correspondence", "listener dispatch differs from the model", json.dumps(tie_bad, default=str)[:3000]))
    ex = min(hist[n_ex:], key=lambda h: abs(len(h) - 9))
    o, f, _, _ = run_history(ex, enc)
    chk.sample({"history": ev_text(ex), "impl": o, "futures": f})
    chk.exhaustive = False
    chk.extra["exhaustive_parts"] = ["all %d histories of depth <= %d over the 8-letter alphabet" % (n_ex, depth_ex)]
    chk.assumptions = ["asyncio semantics (done-callbacks of a future run at the next loop step; call_soon order); the link layer is "
                       "replaced by a stub whose send() completes at once (C07/C11 cover it)",
                       "callbacks do not themselves register, cancel or deliver while they run",
                       "parameter values are equal iff they serialise equally; one command class per header"]
    return chk.finish()


def replay(path):
    r = json.load(open(path))
    print(json.dumps({k: v for k, v in r.items() if k != "case"}, indent=1)[:1500])
    case = r.get("case") or {}
    if "history" not in case:
        print(json.dumps(case, indent=1)[:3000])
        return 0
    enc = Enc()
    evs = normalise(ev_from_json(case["history"]))
    print("history:", *ev_text(evs), sep="\n   ")
    obs, fs, mon, _ = run_history(evs, enc)
    print("impl   :", obs, fs)
    try:
        from common import Model
        mo = strip_model(Model("match").batch([model_line(evs, enc)])[0])
        print("model  :", mo[0], mo[1])
    except Exception as e:  # noqa
        print("model  : unavailable (%r)" % e)
    print("monitor:", mon[1] if mon else "rule holds")
    return 0
