"""Python wire values <-> model values, generators, and command helpers (C04, C15, C16, C19)."""
import os
import sys

sys.path.insert(0, os.path.join(os.path.dirname(os.path.dirname(os.path.abspath(__file__))), "tools"))
import pygen_schemas as PS  # noqa: E402

classify = PS.classify
TA = PS.TA


def item_type_of(ty):
    """Item type of a list class: its usual private attribute, or (after a rename) the type of the items it decodes."""
    it = getattr(ty, "_item_type", None)
    if isinstance(it, type):
        return it
    c = classify(ty)
    return TA.item_type(ty, {"lvlist": "lv", "fixlist": "fixed", "greedy": "greedy"}[c[0]], c[1] if c[0] == "lvlist" else None)


_partial_name = []


def is_partial(cmd):
    """Whether a command object is a partial one (pattern / cut-short failure response)."""
    if not _partial_name:
        import zigpy_zboss.commands as c
        R = c.NcpConfig.GetModuleVersion.Req
        a, b = R(partial=True), R(TSN=1)
        da, db = object.__getattribute__(a, "__dict__"), object.__getattribute__(b, "__dict__")
        if "_partial" in da:
            _partial_name.append(("_partial", False))
        else:
            cands = [(k, False) for k in da if da[k] is True and db.get(k) is False] + \
                    [(k, True) for k in da if da[k] is False and db.get(k) is True]
            if len(cands) != 1:
                raise RuntimeError("cannot tell which attribute marks a partial command (%s)" % cands)
            _partial_name.append(cands[0])
            TA.used_behaviour["CommandBase.partial-flag"] = ("the one boolean attribute that tells a partial command from a "
                                                             "full one (%s%s)" % (cands[0][0], ", inverted" if cands[0][1] else ""))
    name, inverted = _partial_name[0]
    return bool(object.__getattribute__(cmd, "__dict__")[name]) != inverted


def ty_text(c):
    k = c[0]
    if k == "int":
        return "I%d" % c[1]
    if k == "fixbytes":
        return "F%d" % c[1]
    if k == "lvbytes":
        return "B%d:%d" % (c[1], c[2])
    if k == "lvlist":
        return "L%d(%s)" % (c[1], ty_text(c[2]))
    if k == "fixlist":
        return "X%d(%s)" % (c[1], ty_text(c[2]))
    if k == "greedy":
        return "G(%s)" % ty_text(c[1])
    if k == "struct":
        return "S(%s)" % ",".join(ty_text(f) for _, f in c[1])
    if k == "simpledesc":
        return "D"
    raise ValueError(c)


def hexs(b):
    return bytes(b).hex() if len(b) else "-"


def to_model(c, v):
    """Model text of a Python wire value (of the Python type classified as c)."""
    k = c[0]
    if k == "int":
        n = int(v)
        if n < 0:
            n += 1 << (8 * c[1])
        return "i%d" % n
    if k == "fixbytes":
        return "b" + hexs(v.serialize())
    if k == "lvbytes":
        return "b" + hexs(bytes(v))
    if k in ("lvlist", "fixlist"):
        return "l(" + ",".join(to_model(c[2], x) for x in v) + ")"
    if k == "greedy":
        return "l(" + ",".join(to_model(c[1], x) for x in v) + ")"
    if k == "struct":
        return "l(" + ",".join(to_model(fc, getattr(v, name)) for name, fc in c[1]) + ")"
    if k == "simpledesc":
        ins, outs = list(v.input_clusters), list(v.output_clusters)
        if int(v.input_clusters_count) != len(ins) or int(v.output_clusters_count) != len(outs):
            return "l(i%d,i%d,i%d,i%d,l(MISMATCH),l())" % (v.endpoint, v.profile, v.device_type, v.device_version)
        return "l(i%d,i%d,i%d,i%d,l(%s),l(%s))" % (v.endpoint, v.profile, v.device_type, v.device_version,
                                                   ",".join("i%d" % x for x in ins), ",".join("i%d" % x for x in outs))
    raise ValueError(c)


def rand_int(rng, nbytes, signed):
    bits = 8 * nbytes
    lo, hi = (-(1 << (bits - 1)), (1 << (bits - 1)) - 1) if signed else (0, (1 << bits) - 1)
    r = rng.random()
    if r < 0.15:
        return lo
    if r < 0.3:
        return hi
    if r < 0.4:
        return min(hi, max(lo, rng.choice([0, 1, hi - 1, lo + 1, 0x7F, 0x80, 0xDE, 0xAD, -1, -128])))
    return rng.randrange(lo, hi + 1)


def foreign_items(rng, ty, items, always=False):
    """Items of an integer list given as zigpy integers of ANOTHER width (or as plain ints): legal inputs - the list
    type converts every item to its own item type when it serializes."""
    import zigpy.types as zt
    c = classify(item_type_of(ty))
    if c[0] != "int" or c[2] or not items or not (always or rng.random() < 0.25):
        return items
    pool = [zt.uint8_t, zt.uint16_t, zt.uint24_t, zt.uint32_t, zt.uint64_t]
    out = []
    for it in items:
        v = int(it)
        cands = [q for q in pool if q._size != c[1] and v < (1 << (8 * q._size))]
        out.append(rng.choice(cands)(v) if cands and rng.random() < 0.8 else v)
    return out


def gen_py(rng, ty, small=False):
    """A random VALID Python value of wire type ty."""
    import zigpy.types as zt
    from zigpy_zboss.types.structs import SimpleDescriptor
    c = classify(ty)
    k = c[0]
    if k == "int":
        return ty(rand_int(rng, c[1], c[2]))
    if k == "fixbytes":
        return ty.deserialize(bytes(rng.randrange(256) for _ in range(c[1])))[0]
    if k == "lvbytes":
        mx = min(c[2] - 1, 40 if small or rng.random() < 0.9 else c[2] - 1)
        n = rng.choice([0, 1, mx]) if rng.random() < 0.3 else rng.randrange(0, mx + 1)
        return ty(bytes(rng.randrange(256) for _ in range(n)))
    if k == "lvlist":
        mx = min(256 ** c[1] - 1, 6 if small or rng.random() < 0.9 else 300)
        n = rng.choice([0, 1, mx]) if rng.random() < 0.3 else rng.randrange(0, mx + 1)
        return ty(foreign_items(rng, ty, [gen_py(rng, item_type_of(ty), True) for _ in range(n)]))
    if k == "fixlist":
        return ty(foreign_items(rng, ty, [gen_py(rng, item_type_of(ty), True) for _ in range(c[1])]))
    if k == "greedy":
        # boundary: the empty list (encodes to zero bytes) is a legal value of a greedy list
        n = rng.choice([0, 0, 1, 2, 5]) if rng.random() < 0.5 else rng.randrange(0, 30 if not small else 5)
        return ty(foreign_items(rng, ty, [gen_py(rng, item_type_of(ty), True) for _ in range(n)]))
    if k == "struct":
        kw = {}
        for f in ty.fields:
            kw[f.name] = gen_py(rng, f.type, True)
        return ty(**kw)
    if k == "simpledesc":
        # cycle through the boundary shapes deterministically so that every run covers them
        shapes = [(0, 0), (3, 0), (0, 2), (1, 1), (rng.randrange(0, 6), rng.randrange(0, 6)), (255, 0), (0, 255), (2, 5)]
        gen_py.sd_counter = getattr(gen_py, "sd_counter", -1) + 1
        ni, no = shapes[gen_py.sd_counter % len(shapes)]
        if small and ni + no > 20:
            ni, no = 4, 0
        return SimpleDescriptor(endpoint=rng.randrange(256), profile=rng.randrange(65536), device_type=rng.randrange(65536),
                                device_version=rng.randrange(256), input_clusters_count=ni, output_clusters_count=no,
                                input_clusters=[rng.randrange(65536) for _ in range(ni)],
                                output_clusters=[rng.randrange(65536) for _ in range(no)])
    raise ValueError(c)


# ----------------------------------------------------------------------------- commands
def command_table():
    """[(index in GenSchemas.schemas, class)] in the translator's order."""
    cmds, _ = PS.all_commands()
    return list(enumerate(cmds))


def gen_assignment(rng, cls):
    """Random valid keyword assignment: all required, a prefix of the optional parameters."""
    kw = {}
    opts = [p for p in cls.schema if p.optional]
    nopt = rng.randrange(0, len(opts) + 1) if opts else 0
    given_opts = set(p.name for p in opts[:nopt])
    for p in cls.schema:
        if p.optional and p.name not in given_opts:
            continue
        v = gen_py(rng, p.type)
        # an OPTIONAL greedy list that is given but empty is indistinguishable on the wire from an absent one
        # (the model refuses to encode it): keep given optional greedy lists non-empty
        while p.optional and classify(p.type)[0] == "greedy" and len(v) == 0:
            v = gen_py(rng, p.type)
        kw[p.name] = v
    return kw


def assignment_text(cls, cmd):
    """Model text of a command object's bound parameters (None -> n)."""
    out = []
    for p in cls.schema:
        v = getattr(cmd, p.name)
        out.append("n" if v is None else to_model(classify(p.type), v))
    return " ".join(out)


def kw_text(cls, kw):
    out = []
    for p in cls.schema:
        out.append("n" if kw.get(p.name) is None else to_model(classify(p.type), kw[p.name]))
    return " ".join(out)


def frame_with_body(cls, body):
    import zigpy_zboss.types as t
    from zigpy_zboss.frames import Frame, HLPacket, LLHeader
    hl = HLPacket(cls.header, t.Bytes(body))
    ll = LLHeader().with_signature(Frame.signature).with_size((len(body) + 11) & 0xFFFF).with_type(6).with_flags(0xC0)
    return Frame(ll, hl)


def impl_from_body(cls, body):
    """cls.from_frame on a frame carrying `body`: 'A ...' / 'P ...' / 'R'."""
    try:
        cmd = cls.from_frame(frame_with_body(cls, body))
    except (ValueError, KeyError):
        return "R"
    except Exception as e:  # noqa  anything else is not a rejection the callers of from_frame handle
        return "X " + type(e).__name__
    return ("P " if is_partial(cmd) else "A ") + assignment_text(cls, cmd)


# ----------------------------------------------------------------------------- model text -> Python value
def _parse(text):
    pos = [0]

    def peek():
        return text[pos[0]] if pos[0] < len(text) else ""

    def val():
        c = peek()
        pos[0] += 1
        if c == "i":
            st = pos[0]
            while peek().isdigit():
                pos[0] += 1
            return ("i", int(text[st:pos[0]]))
        if c == "b":
            st = pos[0]
            while peek() and peek() in "0123456789abcdef-":
                pos[0] += 1
            h = text[st:pos[0]]
            return ("b", b"" if h == "-" else bytes.fromhex(h))
        if c == "l":
            pos[0] += 1
            items = []
            while peek() != ")":
                items.append(val())
                if peek() == ",":
                    pos[0] += 1
            pos[0] += 1
            return ("l", items)
        raise ValueError("bad model value %r at %d" % (text, pos[0]))
    return val()


def from_model(ty, text, signed=None):
    """Python value of wire type ty from model text (inverse of to_model for valid values).
    signed: optional flat list of the PINNED signedness of the integer leaves (consumed left to right): the image is
    then interpreted as the pinned revision did, so that a changed signedness shows up as a refused / different value."""
    from zigpy_zboss.types.structs import SimpleDescriptor
    tree = _parse(text) if isinstance(text, str) else text
    c = classify(ty)
    k = c[0]
    if k == "int":
        n = tree[1]
        sg = signed.pop(0) if signed else c[2]
        if sg and n >= 1 << (8 * c[1] - 1):
            n -= 1 << (8 * c[1])
        return ty(n)
    if k == "fixbytes":
        return ty.deserialize(tree[1])[0]
    if k == "lvbytes":
        return ty(tree[1])
    if k in ("lvlist", "fixlist", "greedy"):
        item_signed = list(signed) if signed else None
        return ty([from_model(item_type_of(ty), x, list(item_signed) if item_signed else None) for x in tree[1]])
    if k == "struct":
        return ty(**{f.name: from_model(f.type, x, signed) for f, x in zip(ty.fields, tree[1])})
    if k == "simpledesc":
        ep, prof, dt, dv, ins, outs = tree[1]
        return SimpleDescriptor(endpoint=ep[1], profile=prof[1], device_type=dt[1], device_version=dv[1],
                                input_clusters_count=len(ins[1]), output_clusters_count=len(outs[1]),
                                input_clusters=[x[1] for x in ins[1]], output_clusters=[x[1] for x in outs[1]])
    raise ValueError(c)
