import warnings; warnings.simplefilter("ignore")
import asyncio, heapq
from unittest.mock import Mock
import zigpy_zboss.commands as c, zigpy_zboss.types as t, zigpy_zboss.config as conf
from zigpy_zboss.api import ZBOSS
from zigpy_zboss import uart as U
from zigpy_zboss.frames import Frame, LLHeader, HLPacket
from zigpy_zboss.checksum import CRC8

class VLoop(asyncio.SelectorEventLoop):
    """Real asyncio loop with virtual clock: never sleeps."""
    def __init__(self):
        super().__init__()
        self._vt = 0.0
        self._clock_resolution = 1e-6     # deadlines are sums of float seconds: treat timers within 1 us as due
        sel = self._selector
        orig = sel.select
        sel.select = lambda timeout=None: orig(0)
    def time(self): return self._vt
    def settle(self):
        # run until no ready handles (timers not due stay pending)
        n = 0
        while self._ready:
            self.call_soon(self.stop); self.run_forever(); n += 1
            if n > 10000: raise RuntimeError("livelock")
    def advance(self, dt):
        target = self._vt + dt
        while True:
            self.settle()
            sched = [h for h in self._scheduled if not h._cancelled]
            if not sched: break
            nxt = min(h._when for h in sched)
            if nxt > target + 1e-6: break
            self._vt = max(nxt, self._vt)
            self.call_soon(self.stop); self.run_forever()
        self._vt = max(target, self._vt)
        self.settle()

class Wire:
    def __init__(self): self.log = []; self.serial = Mock(); self.serial.name = "fake"; self.closed=False
    def write(self, b): self.log.append(bytes(b))
    def close(self): self.closed = True

def mk(loop):
    cfg = conf.CONFIG_SCHEMA({conf.CONF_DEVICE: {conf.CONF_DEVICE_PATH: "/dev/null"}})
    api = ZBOSS(cfg)
    proto = U.ZbossNcpProtocol(cfg[conf.CONF_DEVICE], api)
    w = Wire(); proto.connection_made(w)
    import access as X
    X.aset(api, "uart", proto)
    return api, proto, w

def rsp_bytes(cmd, seq=0):
    fr = cmd.to_frame()
    fr.ll_header = fr.ll_header.with_flags(fr.ll_header.flags | (seq<<2))
    fr.ll_header = fr.ll_header.with_crc8(CRC8(fr.ll_header.serialize()[2:6]).digest())
    return fr.serialize()

def decode(b):
    f, rest = Frame.deserialize(b)
    return f
