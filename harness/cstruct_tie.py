"""C16, part "C-style structs and NVRAM dataset containers": Tie B and monitors (engine "cstruct").

Proofs: coq/Wire/CStructProofs.v, coq/Wire/NvramProofs.v (model: coq/Wire/CStruct.v, coq/Wire/Nvram.v).

run_cstruct(chk)  RANDOMLY GENERATED CStruct subclasses (created with type() at run time: int fields uint8..uint64 /
                  int8s..int64s, EUI64, KeyData, nested generated CStructs, depth <= 3) under both alignment modes:
                  get_size / get_alignment / get_padded_fields / per-field (size, alignment) / serialize /
                  deserialize(encoding + random suffix) / deserialize(every truncation) / deserialize(random bytes)
                  against the extracted model, and the property's rules checked directly on the implementation
                  (monitors: a small Python reference of the natural-alignment rule, the extracted spec
                  natural_layout_b / natural_total_b, serialize length and field placement, round trip, truncations).
run_nvram(chk)    random record lists -> the NCP's read layouts built here with struct.pack (not with the library's
                  serializers), DSNwkAddrMap / DSApsSecureKeys .deserialize(layout + suffix) against the records
                  (monitor) and the model; the nvram.py path NVRAMDataset(...).serialize(); truncations;
                  the library serializers against the model; NVRAMStruct.get_byte_size on generated structs.

A model/implementation disagreement is a VIOLATION only if a monitor confirms the property fails on that input;
otherwise it is reported as a broken correspondence (chk.broken).
Signed integer fields: the model's CInt carries the unsigned byte pattern; this module maps a signed value v of an
s-byte type to v mod 2^(8s) (zigpy's two's-complement encoding, part of the trusted leaf types)."""
import json
import random
import struct

import common
from common import BuildBroken

PAD = 0xFF
INT_SIZES = [1, 2, 3, 4, 5, 6, 7, 8]


# ---------------------------------------------------------------------------------------------- helpers
def _types():
    import zigpy.types as zt
    import zigpy_zboss.types as t
    u = {1: zt.uint8_t, 2: zt.uint16_t, 3: zt.uint24_t, 4: zt.uint32_t, 5: zt.uint40_t, 6: zt.uint48_t,
         7: zt.uint56_t, 8: zt.uint64_t}
    s = {1: zt.int8s, 2: zt.int16s, 3: zt.int24s, 4: zt.int32s, 5: zt.int40s, 6: zt.int48s, 7: zt.int56s,
         8: zt.int64s}
    return t, zt, u, s


def get_model(chk):
    """Own driver handle for engine "cstruct"; a failure is reported through chk and None returned."""
    try:
        with common.Lock():
            common.build_driver("cstruct")
        return common.Model("cstruct")
    except BuildBroken as b:
        chk.broken.append(b)
        chk.oblige("extraction+driver(cstruct)", False, str(b))
        return None


_CLASS_CACHE = {}
_COUNTER = [0]


def build_class(fields):
    """fields: list of ["i", size, signed] | ["b", n] | ["s", [fields]]  ->  a fresh CStruct subclass."""
    key = json.dumps(fields)
    if key in _CLASS_CACHE:
        return _CLASS_CACHE[key]
    t, zt, u, s = _types()
    ann = {}
    for i, f in enumerate(fields):
        if f[0] == "i":
            ty = (s if f[2] else u)[f[1]]
        elif f[0] == "b":
            ty = {8: zt.EUI64, 16: zt.KeyData}[f[1]]
        else:
            ty = build_class(f[1])
        ann["f%d" % i] = ty
    _COUNTER[0] += 1
    cls = type("Gen%d" % _COUNTER[0], (t.CStruct,), {"__annotations__": ann})
    _CLASS_CACHE[key] = cls
    return cls


def def_tokens(fields):
    out = ["["]
    for f in fields:
        if f[0] == "i":
            out.append("i%d" % f[1])
        elif f[0] == "b":
            out.append("b%d" % f[1])
        else:
            out.append(def_tokens(f[1]))
    out.append("]")
    return " ".join(out)


def val_tokens(fields, value):
    out = ["["]
    for f, v in zip(fields, value):
        if f[0] == "i":
            out.append("n%x" % (v % (1 << (8 * f[1])) if f[2] else v))
        elif f[0] == "b":
            out.append("x" + (v if v else "-"))
        else:
            out.append(val_tokens(f[1], v))
    out.append("]")
    return " ".join(out)


def show_val(fields, value):
    """The model driver's printing of a struct value."""
    parts = []
    for f, v in zip(fields, value):
        if f[0] == "i":
            parts.append("n%x" % (v % (1 << (8 * f[1]))))
        elif f[0] == "b":
            parts.append("x" + (v if v else "-"))
        else:
            parts.append(show_val(f[1], v))
    return "[" + ",".join(parts) + "]"


def make_instance(fields, value):
    t, zt, u, s = _types()
    cls = build_class(fields)
    kw = {}
    for i, (f, v) in enumerate(zip(fields, value)):
        if f[0] == "i":
            kw["f%d" % i] = v
        elif f[0] == "b":
            kw["f%d" % i] = {8: zt.EUI64, 16: zt.KeyData}[f[1]](list(bytes.fromhex(v)))
        else:
            kw["f%d" % i] = make_instance(f[1], v)
    return cls(**kw)


def value_of(fields, inst):
    out = []
    for i, f in enumerate(fields):
        v = getattr(inst, "f%d" % i)
        if f[0] == "i":
            out.append(int(v))
        elif f[0] == "b":
            out.append(bytes(int(x) for x in v).hex())
        else:
            out.append(value_of(f[1], v))
    return out


def leaf_bytes(f, v):
    """Independent encoding of a leaf value (reference for the field-placement monitor)."""
    if f[0] == "i":
        return int(v).to_bytes(f[1], "little", signed=bool(f[2]))
    return bytes.fromhex(v)


def gen_fields(rng, depth=1, top=True):
    n = rng.choice([1, 2, 2, 3, 3, 4, 5, 6]) if top else rng.choice([1, 2, 2, 3, 4])
    out = []
    for _ in range(n):
        r = rng.random()
        if r < 0.58 or (depth >= 3 and r >= 0.78):
            size = rng.choice([1, 1, 2, 2, 3, 4, 4, 5, 8, 8, 6, 7])
            out.append(["i", size, 1 if rng.random() < 0.2 else 0])
        elif r < 0.78:
            out.append(["b", rng.choice([8, 16])])
        else:
            out.append(["s", gen_fields(rng, depth + 1, top=False)])
    return out


def gen_value(rng, fields):
    out = []
    for f in fields:
        if f[0] == "i":
            bits = 8 * f[1]
            if f[2]:
                lo, hi = -(1 << (bits - 1)), (1 << (bits - 1)) - 1
            else:
                lo, hi = 0, (1 << bits) - 1
            out.append(rng.choice([lo, hi, rng.randint(lo, hi), rng.randint(lo, hi), 0xFF % (hi + 1)]))
        elif f[0] == "b":
            out.append(bytes(rng.randrange(256) for _ in range(f[1])).hex())
        else:
            out.append(gen_value(rng, f[1]))
    return out


def depth_of(fields):
    return 1 + max([depth_of(f[1]) for f in fields if f[0] == "s"] or [0])


def count_fields(fields):
    return sum(1 + (count_fields(f[1]) if f[0] == "s" else 0) for f in fields)


# ---------------------------------------------------------------------------------------------- impl observation + monitors
def impl_layout(fields, al):
    cls = build_class(fields)
    padded = [(int(p), int(sz)) for p, sz, _ in cls.get_padded_fields(align=al)]
    sas = [tuple(int(x) for x in f.get_size_and_alignment(align=al)) for f in cls.fields]
    return int(cls.get_size(align=al)), int(cls.get_alignment(align=al)), padded, sas


def monitor_layout(fields, al):
    """The property's layout rules evaluated directly on the implementation (all nesting levels).
    Returns (key, what) of the first rule that fails, or None."""
    cls = build_class(fields)
    size, align, padded, sas = impl_layout(fields, al)
    if len(padded) != len(fields) or len(sas) != len(fields):
        return ("layout:field-count", "get_padded_fields yields %d entries for %d fields" % (len(padded), len(fields)))
    off = 0
    for i, (f, (p, sz), (fsz, fal)) in enumerate(zip(fields, padded, sas)):
        if f[0] == "i":
            exp = (f[1], f[1] if al else 1)
        elif f[0] == "b":
            exp = (f[1], 1)
        else:
            sub = monitor_layout(f[1], al)
            if sub is not None:
                return sub
            ncls = build_class(f[1])
            exp = (int(ncls.get_size(align=al)), int(ncls.get_alignment(align=al)))
        if (fsz, fal) != exp:
            return ("layout:field-size-alignment", "field %d: (size, alignment) = %s, rule gives %s (align=%s)"
                    % (i, (fsz, fal), exp, al))
        if sz != fsz:
            return ("layout:padded-size", "field %d: get_padded_fields size %d, field size %d" % (i, sz, fsz))
        if not al and p != 0:
            return ("layout:packed-padding", "field %d: padding %d in a packed struct" % (i, p))
        if p < 0 or p >= fal:
            return ("layout:padding-not-minimal", "field %d: padding %d not below its alignment %d (align=%s)" % (i, p, fal, al))
        if (off + p) % fal != 0:
            return ("layout:offset-not-aligned", "field %d: offset %d is not a multiple of its alignment %d (align=%s)"
                    % (i, off + p, fal, al))
        off += p + sz
    amax = max(a for _, a in sas)
    if align != amax:
        return ("layout:struct-alignment", "get_alignment %d, largest field alignment %d" % (align, amax))
    if not al and size != sum(s for s, _ in sas):
        return ("layout:packed-size", "packed size %d, sum of the field sizes %d" % (size, sum(s for s, _ in sas)))
    if size < off or size >= off + amax or size % amax != 0:
        return ("layout:total-size", "get_size %d: fields end at %d, struct alignment %d (align=%s)" % (size, off, amax, al))
    return None


def expected_bytes(fields, value, al):
    """Encoding demanded by the rule: every field's own encoding at the offset the (monitored) layout gives it.
    Returns list of (offset, bytes)."""
    cls = build_class(fields)
    out = []
    off = 0
    for f, v, (p, sz, _) in zip(fields, value, cls.get_padded_fields(align=al)):
        off += p
        if f[0] == "s":
            for o, b in expected_bytes(f[1], v, al):
                out.append((off + o, b))
        else:
            out.append((off, leaf_bytes(f, v)))
        off += sz
    return out


def cut_points(n, rng, limit):
    if n <= limit:
        return list(range(n))
    pts = {0, 1, n - 1, n - 2, n // 2}
    while len(pts) < limit:
        pts.add(rng.randrange(n))
    return sorted(pts)


def examine(fields, al, vseed, nvalues, all_cuts, want_lines=True):
    """Run the implementation on one (definition, mode); returns (monitor_failure | None, lines, canon, stats)
    where lines = [(stream, model_line, expected_output, is_spec)]."""
    rng = random.Random(vseed)
    cls = build_class(fields)
    lines = []
    dt = def_tokens(fields)
    a = "1" if al else "0"
    stats = {"truncations": 0, "values": 0}
    mon = monitor_layout(fields, al)
    size, align, padded, sas = impl_layout(fields, al)
    if want_lines:
        offs, off = [], 0
        for p, sz in padded:
            offs.append(off + p)
            off += p + sz
        exp = "%d %d %s %s %s" % (size, align, ",".join("%d:%d" % x for x in padded), ",".join(str(o) for o in offs),
                                  ",".join("%d:%d" % x for x in sas))
        lines.append(("layout", "layout %s %s" % (a, dt), exp, False))
        lines.append(("spec", "natural %d %d %s %s" % (size, align, ",".join("%d:%d" % x for x in sas),
                                                       ",".join("%d:%d" % x for x in padded)), "1 1", True))
    canon = [fields, al]
    if mon is not None:
        return mon, lines, canon, stats
    for _ in range(nvalues):
        value = gen_value(rng, fields)
        stats["values"] += 1
        inst = make_instance(fields, value)
        data = bytes(inst.serialize(align=al))
        if want_lines:
            lines.append(("ser", "ser %s %s / %s" % (a, dt, val_tokens(fields, value)), data.hex() or "-", False))
        if len(data) != size:
            return (("serialize:length", "len(serialize) = %d, get_size = %d (align=%s) value=%s" % (len(data), size, al, value)),
                    lines, canon, stats)
        for o, b in expected_bytes(fields, value, al):
            if data[o:o + len(b)] != b:
                return (("serialize:field-placement", "bytes at offset %d are %s, the field encodes as %s (align=%s) value=%s"
                         % (o, data[o:o + len(b)].hex(), b.hex(), al, value)), lines, canon, stats)
        suffix = bytes(rng.randrange(256) for _ in range(rng.choice([0, 1, 1, 2, 5, 9])))
        try:
            got, rest = cls.deserialize(data + suffix, align=al)
            obs = "OK %s %s" % (show_val(fields, value_of(fields, got)), bytes(rest).hex() or "-")
            ok = (got == inst) and bytes(rest) == suffix and value_of(fields, got) == value
        except Exception as e:  # noqa: BLE001
            obs, ok = "EXC %s" % type(e).__name__, False
        if want_lines:
            lines.append(("deser", "deser %s %s / %s" % (a, dt, (data + suffix).hex() or "-"), obs.replace("EXC ValueError", "VE"), False))
        if not ok:
            return (("roundtrip", "deserialize(serialize(v) + %s) gives %s for v=%s (align=%s)" % (suffix.hex() or "-", obs, value, al)),
                    lines, canon, stats)
        for k in cut_points(len(data), rng, 10 ** 9 if all_cuts else 48):
            stats["truncations"] += 1
            try:
                got, rest = cls.deserialize(data[:k], align=al)
                obs = "OK %s %s" % (show_val(fields, value_of(fields, got)), bytes(rest).hex() or "-")
            except ValueError:
                obs = "VE"
            except Exception as e:  # noqa: BLE001
                obs = "EXC %s" % type(e).__name__
            if want_lines and (all_cuts or k in (0, len(data) - 1, len(data) // 2)):
                lines.append(("deser-trunc", "deser %s %s / %s" % (a, dt, data[:k].hex() or "-"), obs, False))
            if obs != "VE":
                return (("truncation-not-rejected", "encoding of %d bytes cut to %d: deserialize gives %s instead of ValueError "
                         "(align=%s) value=%s" % (len(data), k, obs, al, value)), lines, canon, stats)
    # arbitrary bytes of sufficient length (tie only): decoding consumes exactly `size` bytes whatever they are
    if want_lines:
        blob = bytes(rng.randrange(256) for _ in range(size + rng.choice([0, 0, 1, 3])))
        try:
            got, rest = cls.deserialize(blob, align=al)
            obs = "OK %s %s" % (show_val(fields, value_of(fields, got)), bytes(rest).hex() or "-")
        except ValueError:
            obs = "VE"
        except Exception as e:  # noqa: BLE001
            obs = "EXC %s" % type(e).__name__
        lines.append(("deser-random", "deser %s %s / %s" % (a, dt, blob.hex() or "-"), obs, False))
    return None, lines, canon, stats


def shrink_def(fields, al, vseed, key):
    """Greedy structural shrinking: drop fields / replace a nested struct by one of its fields while the
    same monitor keeps failing."""
    def fails(fs):
        try:
            m = examine(fs, al, vseed, 2, True, want_lines=False)[0]
        except Exception:  # noqa: BLE001
            return False
        return m is not None and m[0] == key

    def variants(fs):
        for i in range(len(fs)):
            if len(fs) > 1:
                yield fs[:i] + fs[i + 1:]
            if fs[i][0] == "s":
                for g in fs[i][1]:
                    yield fs[:i] + [g] + fs[i + 1:]
                for sub in variants(fs[i][1]):
                    yield fs[:i] + [["s", sub]] + fs[i + 1:]
            elif fs[i][0] == "i" and fs[i][2]:
                yield fs[:i] + [["i", fs[i][1], 0]] + fs[i + 1:]
    cur = fields
    changed = True
    while changed:
        changed = False
        for cand in variants(cur):
            if fails(cand):
                cur, changed = cand, True
                break
    return cur


def invalid_value_lines(rng, fields, al):
    """A value that does not fit its field: the implementation must refuse (ValueError at construction or in
    serialize), the model's serialize is undefined.  Tie only."""
    value = gen_value(rng, fields)
    leafs = [i for i, f in enumerate(fields) if f[0] != "s"]
    if not leafs:
        return None
    i = rng.choice(leafs)
    f = fields[i]
    t, zt, u, s = _types()
    if f[0] == "i":
        bits = 8 * f[1]
        bad = (1 << bits) if not f[2] else rng.choice([1 << (bits - 1), -(1 << (bits - 1)) - 1])
        value[i] = bad
        tok_value = list(value)
        # the model's integer is the unsigned pattern: an out-of-range signed value has no pattern; use 2^bits
        tok_value[i] = (1 << bits)
        fields_tok = [list(g) for g in fields]
        fields_tok[i] = ["i", f[1], 0]
        line = "ser %s %s / %s" % ("1" if al else "0", def_tokens(fields), val_tokens(fields_tok, tok_value))
    else:
        value[i] = value[i][:-2] if rng.random() < 0.5 else value[i] + "00"
        line = "ser %s %s / %s" % ("1" if al else "0", def_tokens(fields), val_tokens(fields, value))
    try:
        inst = make_instance(fields, value)
        inst.serialize(align=al)
        obs = "OK"
    except ValueError:
        obs = "VE"
    except Exception as e:  # noqa: BLE001
        obs = "EXC %s" % type(e).__name__
    return ("ser-invalid", line, obs, False)


# ---------------------------------------------------------------------------------------------- extraction cross-check
def coq_def(fields):
    return "[" + "; ".join("CInt %d" % f[1] if f[0] == "i" else "CBytes %d" % f[1] if f[0] == "b" else "CNested " + coq_def(f[1])
                           for f in fields) + "]"


def coq_val(fields, value):
    parts = []
    for f, v in zip(fields, value):
        if f[0] == "i":
            parts.append("VInt %d%%N" % (v % (1 << (8 * f[1]))))
        elif f[0] == "b":
            parts.append("VBytes [" + "; ".join("%d%%N" % b for b in bytes.fromhex(v)) + "]")
        else:
            parts.append("VStruct " + coq_val(f[1], v))
    return "[" + "; ".join(parts) + "]"


def kernel_sample(chk, model, sample):
    """Guards the extraction step: the same terms evaluated inside coqc with vm_compute.
    sample: list of (fields, al, value)."""
    import re
    pre = ("From Coq Require Import NArith List. Import ListNotations.\n"
           "From ZB Require Import Base.Bytes Wire.CStruct.")
    terms, lines = [], []
    for fields, al, value in sample:
        b = "true" if al else "false"
        d = coq_def(fields)
        terms.append("(cs_size %s %s, cs_alignment %s %s, cs_padded %s %s)" % (b, d, b, d, b, d))
        terms.append("cs_serialize %s %s %s" % (b, d, coq_val(fields, value)))
        lines.append("layout %s %s" % ("1" if al else "0", def_tokens(fields)))
        lines.append("ser %s %s / %s" % ("1" if al else "0", def_tokens(fields), val_tokens(fields, value)))
    try:
        res = common.coq_eval(chk.pid + "cs", (pre, terms))
    except BuildBroken as b:
        chk.oblige("extraction-vs-kernel(cstruct)", False, str(b))
        chk.broken.append(b)
        return
    outs = model.batch(lines)
    ok = len(res) == len(terms)
    bad = ""
    for i in range(0, min(len(res), len(terms)), 2):
        lay = outs[i].split()
        exp_lay = "(%s,%s,[%s])" % (lay[0], lay[1], ";".join("(%s,%s)" % tuple(x.split(":")) for x in lay[2].split(",")))
        got_lay = re.sub(r"%nat|%N|\s", "", res[i])
        data = bytes.fromhex(outs[i + 1]) if outs[i + 1] not in ("-", "VE") else b""
        exp_ser = "Some[%s]" % ";".join(str(x) for x in data)
        got_ser = re.sub(r"%nat|%N|\s", "", res[i + 1])
        if got_lay != exp_lay or got_ser != exp_ser:
            ok, bad = False, "%s | kernel %s / %s | extracted %s / %s" % (terms[i], got_lay, got_ser[:80], exp_lay, exp_ser[:80])
            break
    chk.oblige("extraction-vs-kernel(cstruct: vm_compute sample of %d layouts + encodings)" % len(sample), ok, bad[:300])
    if not ok:
        chk.broken.append(BuildBroken("extraction", "extracted CStruct model disagrees with in-kernel evaluation", bad))


# ---------------------------------------------------------------------------------------------- run_cstruct
DIRECTED = [
    [["i", 1, 0], ["i", 2, 0], ["i", 1, 0]],
    [["i", 1, 0], ["i", 4, 0]],
    [["i", 4, 0], ["i", 1, 0]],
    [["i", 1, 0], ["s", [["i", 1, 0], ["i", 4, 0]]], ["b", 8], ["i", 3, 0], ["b", 16], ["i", 1, 1]],
    [["i", 1, 0], ["s", [["i", 2, 0], ["s", [["i", 1, 0], ["i", 8, 0]]], ["i", 1, 0]]], ["i", 1, 0]],
    [["b", 8], ["i", 8, 0], ["i", 1, 0]],
    [["i", 3, 0], ["i", 5, 0], ["i", 2, 0]],
    [["i", 1, 0]],
    [["s", [["s", [["i", 1, 0], ["i", 2, 0]]], ["i", 1, 0]]], ["i", 4, 0]],
]


def run_cstruct(chk, model=None):
    rng = chk.rng
    thorough = chk.tier == "thorough"
    n_defs = 1500 if thorough else 260
    nvalues = 3 if thorough else 2
    if model is None:
        model = get_model(chk)
    defs = [d for d in DIRECTED]
    while len(defs) < n_defs:
        defs.append(gen_fields(rng))
    all_lines = []          # (case_index, stream, line, expected, is_spec)
    cases = []
    mon_fail = {}           # key -> (what, case)
    n_trunc = 0
    for fields in defs:
        for al in (False, True):
            vseed = rng.randrange(1 << 48)
            try:
                mon, lines, canon, stats = examine(fields, al, vseed, nvalues, thorough)
            except Exception as e:  # noqa: BLE001
                mon, lines, canon, stats = (("impl-exception", "%s: %s" % (type(e).__name__, e)), [], [fields, al],
                                            {"truncations": 0, "values": 0})
            ci = len(cases)
            cases.append({"fields": fields, "align": al, "vseed": vseed})
            size, align, padded, _ = impl_layout(fields, al) if mon is None or not mon[0].startswith("impl") else (0, 0, [], [])
            nontrivial = depth_of(fields) > 1 or any(p for p, _ in padded) or len(fields) > 1
            chk.note_case(("cstruct", fields, al), nontrivial=nontrivial)
            chk.count("cstruct_mode_%s" % ("aligned" if al else "packed"))
            chk.count("cstruct_depth_%d" % depth_of(fields))
            chk.count("cstruct_fields_%s" % ("1-3" if count_fields(fields) <= 3 else "4-8" if count_fields(fields) <= 8 else ">8"))
            if al and any(p for p, _ in padded):
                chk.count("cstruct_aligned_with_inner_padding")
            if al and padded and size > sum(p + s for p, s in padded):
                chk.count("cstruct_aligned_with_final_padding")
            chk.count("cstruct_values", stats["values"])
            n_trunc += stats["truncations"]
            if ci % 97 == 3 and al:
                chk.sample({"cstruct": def_tokens(fields), "align": al, "size": size, "alignment": align,
                            "padded": padded})
            for st, line, exp, is_spec in lines:
                all_lines.append((ci, st, line, exp, is_spec))
            if mon is not None and mon[0] not in mon_fail:
                small = shrink_def(fields, al, vseed, mon[0]) if not mon[0].startswith("impl") else fields
                try:
                    m2 = examine(small, al, vseed, 2, True, want_lines=False)[0] or mon
                except Exception:  # noqa: BLE001
                    m2 = mon
                mon_fail[mon[0]] = (m2[1], {"kind": "cstruct", "fields": small, "definition": def_tokens(small), "align": al,
                                            "vseed": vseed, "original_definition": def_tokens(fields)})
            if ci % 5 == 0:
                il = invalid_value_lines(rng, fields, al)
                if il is not None:
                    all_lines.append((ci, il[0], il[1], il[2], il[3]))
    chk.count("cstruct_truncations", n_trunc)
    if model is not None and not mon_fail:
        ks = []
        for c in cases[:8] + cases[len(DIRECTED) * 2::max(1, len(cases) // 16)][:16]:
            if count_fields(c["fields"]) <= 10:
                ks.append((c["fields"], c["align"], gen_value(random.Random(c["vseed"]), c["fields"])))
        kernel_sample(chk, model, ks)
    # ---- model side
    tie_bad = {}
    spec_bad = None
    if model is not None and all_lines:
        outs = model.batch([l[2] for l in all_lines])
        for (ci, st, line, exp, is_spec), out in zip(all_lines, outs):
            if out != exp:
                if is_spec:
                    if spec_bad is None:
                        spec_bad = (cases[ci], line, out)
                elif st not in tie_bad:
                    tie_bad[st] = {"case": cases[ci], "model_line": line, "model": out[:300], "impl": exp[:300]}
        chk.count("cstruct_model_lines", len(all_lines))
    # ---- verdicts
    for key, (what, case) in mon_fail.items():
        chk.violation("CStruct: " + what, case, key="cstruct:" + key)
    if spec_bad is not None and not any(k.startswith("layout") for k in mon_fail):
        c = dict(spec_bad[0])
        c.update({"kind": "cstruct", "definition": def_tokens(c["fields"]), "spec_line": spec_bad[1], "spec_says": spec_bad[2]})
        chk.violation("CStruct: the implementation's (padding, size) list / total size is not the natural-alignment layout "
                      "(extracted spec natural_layout_b / natural_total_b = %s)" % spec_bad[2], c, key="cstruct:layout:extracted-spec")
    lay = [k for k in mon_fail if k.startswith("layout")]
    chk.oblige("monitor:cstruct-natural-alignment-rule-on-impl(python reference; %d definitions x 2 modes)" % len(defs),
               not lay, "; ".join(mon_fail[k][0] for k in lay)[:300])
    chk.oblige("monitor:cstruct-natural-alignment-rule-on-impl(extracted spec natural_layout_b/natural_total_b)",
               spec_bad is None and model is not None, json.dumps(spec_bad)[:300] if spec_bad else "")
    for key, name in (("serialize:length", "monitor:cstruct-serialize-length=get_size"),
                      ("serialize:field-placement", "monitor:cstruct-serialized-fields-at-their-offsets"),
                      ("roundtrip", "monitor:cstruct-deserialize(serialize(v)+suffix)=(v,suffix)"),
                      ("truncation-not-rejected", "monitor:cstruct-every-truncation-raises-ValueError(%d cuts)" % n_trunc),
                      ("impl-exception", "monitor:cstruct-no-unexpected-exception")):
        chk.oblige(name, key not in mon_fail, mon_fail[key][0][:300] if key in mon_fail else "")
    for st, name in (("layout", "tieB:cstruct-get_size/get_alignment/get_padded_fields-vs-model"),
                     ("ser", "tieB:cstruct-serialize-vs-model"),
                     ("deser", "tieB:cstruct-deserialize(encoding+suffix)-vs-model"),
                     ("deser-trunc", "tieB:cstruct-deserialize(truncation)-vs-model"),
                     ("deser-random", "tieB:cstruct-deserialize(random bytes)-vs-model"),
                     ("ser-invalid", "tieB:cstruct-invalid-values-refused-vs-model")):
        chk.oblige(name, model is not None and st not in tie_bad, json.dumps(tie_bad.get(st, ""))[:300] if st in tie_bad else "")
    if tie_bad and not mon_fail and spec_bad is None:
        chk.broken.append(BuildBroken("correspondence", "CStruct implementation differs from the model (%s)" % ",".join(sorted(tie_bad)),
                                      json.dumps(tie_bad, default=str)[:3000]))
    return not mon_fail and not tie_bad and spec_bad is None


# ---------------------------------------------------------------------------------------------- NVRAM
def gen_addr_rec(rng):
    return [bytes(rng.randrange(256) for _ in range(8)).hex(), rng.choice([0, 0xFFFF, rng.randrange(1 << 16)]),
            rng.randrange(256), rng.randrange(256), rng.randrange(256), rng.choice([0, 0, rng.randrange(1 << 24)])]


def gen_aps_rec(rng):
    return [bytes(rng.randrange(256) for _ in range(8)).hex(), bytes(rng.randrange(256) for _ in range(16)).hex(),
            rng.choice([0, 0xFFFFFFFF, rng.randrange(1 << 32)])]


def addr_rec_bytes(r):
    return bytes.fromhex(r[0]) + struct.pack("<HBBB", r[1], r[2], r[3], r[4]) + r[5].to_bytes(3, "little")


def aps_rec_bytes(r):
    return bytes.fromhex(r[0]) + bytes.fromhex(r[1]) + struct.pack("<I", r[2])


def addr_layout(rs, bc=None, ver=2, al=0):
    items = b"".join(addr_rec_bytes(r) for r in rs)
    if bc is None:
        bc = 4 + len(items)
    return struct.pack("<HBBH", bc, len(rs), ver, al) + items


def aps_layout(rs, x4):
    items = b"".join(aps_rec_bytes(r) for r in rs)
    return struct.pack("<H", 4 + len(items)) + x4 + items


def show_addr(r):
    return "[x%s,n%x,n%x,n%x,n%x,n%x]" % (r[0], r[1], r[2], r[3], r[4], r[5])


def show_aps(r):
    return "[x%s,x%s,n%x]" % (r[0], r[1], r[2])


def rec_tokens(rs, kind):
    out = ["["]
    for r in rs:
        if kind == "addr":
            out.append("[ x%s n%x n%x n%x n%x n%x ]" % tuple(r))
        else:
            out.append("[ x%s x%s n%x ]" % tuple(r))
    out.append("]")
    return " ".join(out)


def impl_addr_parse(data):
    from zigpy_zboss.types import nvids
    try:
        lst, rest = nvids.DSNwkAddrMap.deserialize(data)
    except ValueError:
        return "VE", None, None
    except Exception as e:  # noqa: BLE001
        return "EXC %s" % type(e).__name__, None, None
    recs = [[bytes(int(x) for x in r.ieee_addr).hex(), int(r.nwk_addr), int(r.index), int(r.redirect_type),
             int(r.redirect_ref), int(r._align)] for r in lst]
    return "OK %s %s" % (";".join(show_addr(r) for r in recs) or "-", bytes(rest).hex() or "-"), recs, bytes(rest)


def impl_aps_parse(data):
    from zigpy_zboss.types import nvids
    try:
        lst, rest = nvids.DSApsSecureKeys.deserialize(data)
    except ValueError:
        return "VE", None, None
    except Exception as e:  # noqa: BLE001
        return "EXC %s" % type(e).__name__, None, None
    recs = [[bytes(int(x) for x in r.ieee_addr).hex(), bytes(int(x) for x in r.key).hex(), int(r._unknown_1)] for r in lst]
    return "OK %s %s" % (";".join(show_aps(r) for r in recs) or "-", bytes(rest).hex() or "-"), recs, bytes(rest)


def impl_addr_serialize(rs):
    t, zt, u, s = _types()
    from zigpy_zboss.types import nvids
    try:
        m = nvids.DSNwkAddrMap([nvids.NwkAddrMapRecord(ieee_addr=zt.EUI64(list(bytes.fromhex(r[0]))), nwk_addr=r[1], index=r[2],
                                                       redirect_type=r[3], redirect_ref=r[4], _align=r[5]) for r in rs])
        return bytes(m.serialize())
    except ValueError:
        return None


def impl_aps_serialize(rs):
    t, zt, u, s = _types()
    from zigpy_zboss.types import nvids
    try:
        m = nvids.DSApsSecureKeys([nvids.ApsSecureEntry(ieee_addr=zt.EUI64(list(bytes.fromhex(r[0]))),
                                                        key=zt.KeyData(list(bytes.fromhex(r[1]))), _unknown_1=r[2]) for r in rs])
        return bytes(m.serialize())
    except ValueError:
        return None


def nvram_dataset_bytes(content):
    """What nvram.py:read() passes to item_type.deserialize: res.Dataset.serialize()."""
    t, zt, u, s = _types()
    return bytes(t.NVRAMDataset(content).serialize())


def check_nvram_case(kind, rs, extra, suffix, cut_limit, rng):
    """Monitors on the implementation for one record list.  Returns (failure | None, model lines)."""
    lines = []
    if kind == "addr":
        bc, ver, al = extra
        layout = addr_layout(rs, bc, ver, al)
        obs, recs, rest = impl_addr_parse(layout + suffix)
        lines.append(("addrparse", "addrparse %s" % ((layout + suffix).hex() or "-"), obs))
        lines.append(("addrlayout", "addrlayout %d %d %d %s" % (4 + 16 * len(rs) if bc is None else bc, ver, al, rec_tokens(rs, "addr")),
                      layout.hex()))
        if recs != rs or rest != suffix:
            return (("nvram-addr:read-layout", "DSNwkAddrMap.deserialize(read layout of %d records + %d further bytes) gives %s"
                     % (len(rs), len(suffix), obs[:200])), lines)
        if bc is None or bc == len(layout) - 2:
            via = nvram_dataset_bytes(layout[2:])
            if via != layout:
                return (("nvram-addr:dataset-path", "NVRAMDataset(dataset).serialize() is not u16 length + dataset"), lines)
        for k in cut_points(len(layout), rng, cut_limit):
            o, _, _ = impl_addr_parse(layout[:k])
            if o != "VE":
                return (("nvram-addr:truncation-not-rejected", "address map layout of %d bytes cut to %d: deserialize gives %s"
                         % (len(layout), k, o[:120])), lines)
        ser = impl_addr_serialize(rs)
        lines.append(("addrser", "addrser %s" % rec_tokens(rs, "addr"), "VE" if ser is None else ser.hex()))
        if len(rs) < 256:
            if ser is None:
                return (("nvram-addr:serialize-refused", "DSNwkAddrMap.serialize refuses %d valid records" % len(rs)), lines)
            o2, recs2, rest2 = impl_addr_parse(ser + suffix)
            if recs2 != rs or rest2 != suffix:
                return (("nvram-addr:serialize-roundtrip", "deserialize(serialize(%d records) + suffix) gives %s" % (len(rs), o2[:200])), lines)
            if ser != addr_layout(rs):
                return (("nvram-addr:serialize-is-read-layout", "DSNwkAddrMap.serialize is not header(byte_count=4+16n, n, version 2, 0) + records: %s"
                         % ser[:8].hex()), lines)
    else:
        x4 = extra
        layout = aps_layout(rs, x4)
        obs, recs, rest = impl_aps_parse(layout + suffix)
        lines.append(("apsparse", "apsparse %s" % ((layout + suffix).hex() or "-"), obs))
        lines.append(("apslayout", "apslayout %s %s" % (x4.hex(), rec_tokens(rs, "aps")), layout.hex()))
        if recs != rs or rest != suffix:
            return (("nvram-aps:read-layout", "DSApsSecureKeys.deserialize(read layout of %d entries + %d further bytes) gives %s"
                     % (len(rs), len(suffix), obs[:200])), lines)
        via = nvram_dataset_bytes(layout[2:])
        if via != layout:
            return (("nvram-aps:dataset-path", "NVRAMDataset(dataset).serialize() is not u16 length + dataset"), lines)
        if rs:
            for k in cut_points(len(layout), rng, cut_limit):
                o, _, _ = impl_aps_parse(layout[:k])
                if o != "VE":
                    return (("nvram-aps:truncation-not-rejected", "APS key layout of %d bytes cut to %d: deserialize gives %s"
                             % (len(layout), k, o[:120])), lines)
        else:
            for k in range(len(layout)):
                o, _, _ = impl_aps_parse(layout[:k])
                lines.append(("apsparse-empty-cut", "apsparse %s" % (layout[:k].hex() or "-"), o))
        ser = impl_aps_serialize(rs)
        lines.append(("apsser", "apsser %s" % rec_tokens(rs, "aps"), "VE" if ser is None else ser.hex()))
    return None, lines


def run_nvram(chk, model=None):
    rng = chk.rng
    thorough = chk.tier == "thorough"
    if model is None:
        model = get_model(chk)
    from zigpy_zboss.types import nvids
    t, zt, u, s = _types()
    n_lists = 700 if thorough else 140
    cut_limit = 10 ** 9 if thorough else 40
    all_lines = []
    fails = {}
    cases = []

    def one(kind, rs, extra, suffix, limit=None):
        ci = len(cases)
        case = {"kind": "nvram-" + kind, "records": rs, "suffix": suffix.hex(),
                "header" if kind == "addr" else "redundant4": list(extra) if kind == "addr" else extra.hex()}
        cases.append(case)
        try:
            fail, lines = check_nvram_case(kind, rs, extra, suffix, limit or cut_limit, rng)
        except Exception as e:  # noqa: BLE001
            fail, lines = ("nvram-%s:impl-exception" % kind, "%s: %s" % (type(e).__name__, e)), []
        chk.note_case(("nvram", kind, rs, case.get("header", case.get("redundant4")), suffix.hex()), nontrivial=len(rs) > 0)
        chk.count("nvram_%s_records_%s" % (kind, "0" if not rs else "1-5" if len(rs) <= 5 else "6-40" if len(rs) <= 40 else ">40"))
        for st, line, exp in lines:
            all_lines.append((ci, st, line, exp))
        if fail is not None and fail[0] not in fails:
            # shrink: drop records / suffix while the same monitor fails
            cur_rs, cur_suf = list(rs), suffix
            changed = True
            while changed:
                changed = False
                cands = [(cur_rs[:i] + cur_rs[i + 1:], cur_suf) for i in range(len(cur_rs))] + ([(cur_rs, b"")] if cur_suf else [])
                for crs, csuf in cands:
                    try:
                        f2 = check_nvram_case(kind, crs, extra, csuf, 60, random.Random(1))[0]
                    except Exception:  # noqa: BLE001
                        f2 = None
                    if f2 is not None and f2[0] == fail[0]:
                        cur_rs, cur_suf, changed = crs, csuf, True
                        break
            try:
                f3 = check_nvram_case(kind, cur_rs, extra, cur_suf, 60, random.Random(1))[0] or fail
            except Exception:  # noqa: BLE001
                f3 = fail
            c2 = dict(case)
            c2.update({"records": cur_rs, "suffix": cur_suf.hex(),
                       "layout": (addr_layout(cur_rs, *extra) if kind == "addr" else aps_layout(cur_rs, extra)).hex()})
            fails[fail[0]] = (f3[1], c2)
        if ci % 61 == 7:
            chk.sample({"nvram": kind, "records": len(rs), "first": rs[:1], "suffix": suffix.hex()})

    def suffix_of():
        return bytes(rng.randrange(256) for _ in range(rng.choice([0, 0, 1, 3, 16, 28, 40])))

    sizes = [0, 1, 2, 3, 5, 6, 7, 12, 13, 24, 40]
    for i in range(n_lists):
        n = sizes[i % len(sizes)] if i < 3 * len(sizes) else rng.choice([0, 1, 2, 3, 4, 6, 7, 8, 11, 12, 18, 30])
        rs = [gen_addr_rec(rng) for _ in range(n)]
        hdr = (None, 2, 0) if rng.random() < 0.6 else (rng.randrange(1 << 16), rng.randrange(256), rng.randrange(1 << 16))
        one("addr", rs, hdr, suffix_of())
        n = sizes[i % len(sizes)] if i < 3 * len(sizes) else rng.choice([0, 1, 2, 3, 4, 6, 7, 8, 11, 12, 18, 30])
        rs = [gen_aps_rec(rng) for _ in range(n)]
        one("aps", rs, bytes(rng.randrange(256) for _ in range(4)), suffix_of())
    # boundary sizes: entry_count is a uint8_t (255 fits, 256 does not); the u16 length allows 2340 APS entries
    one("addr", [gen_addr_rec(rng) for _ in range(255)], (None, 2, 0), b"\x01\x02", limit=60)
    one("aps", [gen_aps_rec(rng) for _ in range(300)], b"\xaa\xbb\xaa\xbb", b"\x05" * 30, limit=60)
    if thorough:
        one("aps", [gen_aps_rec(rng) for _ in range(2340)], b"\x00\x00\x00\x00", b"\x07" * 29, limit=60)
    big = [gen_addr_rec(rng) for _ in range(256)]
    ser256 = impl_addr_serialize(big)
    all_lines.append((len(cases) - 1, "addrser", "addrser %s" % rec_tokens(big, "addr"), "VE" if ser256 is None else ser256.hex()))
    # arbitrary length fields / arbitrary bytes (tie only): includes length < 4 and lengths that are not 4 + 28 n
    for _ in range(400 if thorough else 120):
        ln = rng.choice([0, 1, 3, 4, 5, 27, 28, 31, 32, 33, 59, 60, 61, rng.randrange(0, 200), rng.randrange(1 << 16)])
        body = bytes(rng.randrange(256) for _ in range(rng.choice([0, 2, 4, 5, 32, 33, 60, 61, 90, 120])))
        data = struct.pack("<H", ln) + body
        all_lines.append((len(cases) - 1, "apsparse-random", "apsparse %s" % data.hex(), impl_aps_parse(data)[0]))
        data = struct.pack("<HBBH", rng.randrange(1 << 16), rng.choice([0, 1, 2, 3, 7, rng.randrange(256)]), rng.randrange(256), 0)
        data = data[:rng.choice([6, 6, 6, 5, 3])] + bytes(rng.randrange(256) for _ in range(rng.choice([0, 15, 16, 17, 32, 50])))
        all_lines.append((len(cases) - 1, "addrparse-random", "addrparse %s" % (data.hex() or "-"), impl_addr_parse(data)[0]))
    # NVRAMStruct.get_byte_size: the three real structs and generated ones (leaf fields) = packed size = len(serialize)
    gbs_fail = None
    real = [(nvids.NwkAddrMapHeader, [["i", 2, 0], ["i", 1, 0], ["i", 1, 0], ["i", 2, 0]], 6),
            (nvids.NwkAddrMapRecord, [["b", 8], ["i", 2, 0], ["i", 1, 0], ["i", 1, 0], ["i", 1, 0], ["i", 3, 0]], 16),
            (nvids.ApsSecureEntry, [["b", 8], ["b", 16], ["i", 4, 0]], 28)]
    for cls, fields, want in real:
        got = cls.get_byte_size()
        all_lines.append((len(cases) - 1, "zsize", "zsize %s" % def_tokens(fields), str(got)))
        if got != want and gbs_fail is None:
            gbs_fail = ("%s.get_byte_size() = %d, its serialization has %d bytes" % (cls.__name__, got, want),
                        {"kind": "nvram-byte-size", "struct": cls.__name__})
    for j in range(150 if thorough else 40):
        fields = [f for f in gen_fields(rng, depth=3) if f[0] != "s"] or [["i", 1, 0]]
        ann = {}
        kw = {}
        value = gen_value(rng, fields)
        for i, (f, v) in enumerate(zip(fields, value)):
            if f[0] == "i":
                ann["f%d" % i] = (s if f[2] else u)[f[1]]
                kw["f%d" % i] = v
            else:
                ann["f%d" % i] = {8: zt.EUI64, 16: zt.KeyData}[f[1]]
                kw["f%d" % i] = ann["f%d" % i](list(bytes.fromhex(v)))
        cls = type("GenNv%d" % j, (nvids.NVRAMStruct,), {"__annotations__": ann})
        got = cls.get_byte_size()
        slen = len(cls(**kw).serialize())
        chk.note_case(("nvram-byte-size", fields), nontrivial=len(fields) > 1)
        chk.count("nvram_byte_size_structs")
        all_lines.append((len(cases) - 1, "zsize", "zsize %s" % def_tokens(fields), str(got)))
        all_lines.append((len(cases) - 1, "zser", "zser %s / %s" % (def_tokens(fields), val_tokens(fields, value)),
                          bytes(cls(**kw).serialize()).hex()))
        if got != slen and gbs_fail is None:
            gbs_fail = ("get_byte_size() = %d but the struct serializes to %d bytes" % (got, slen),
                        {"kind": "nvram-byte-size", "fields": fields, "definition": def_tokens(fields)})
    # ---- model side
    tie_bad = {}
    if model is not None:
        outs = model.batch([l[2] for l in all_lines])
        for (ci, st, line, exp), out in zip(all_lines, outs):
            if out != exp and st not in tie_bad:
                tie_bad[st] = {"case": {k: (v if k != "records" else "%d records" % len(v)) for k, v in cases[ci].items()},
                               "model_line": line[:400], "model": out[:300], "impl": exp[:300]}
            if st == "apsparse-empty-cut" and exp.startswith("OK"):
                chk.count("nvram_aps_empty_layout_cut_inside_redundant_bytes_returns_empty_list")
        chk.count("nvram_model_lines", len(all_lines))
    for key, (what, case) in fails.items():
        chk.violation("NVRAM: " + what, case, key=key)
    if gbs_fail is not None:
        chk.violation("NVRAM: " + gbs_fail[0], gbs_fail[1], key="nvram-byte-size")
    for prefix, name in (("nvram-addr:read-layout", "monitor:nvram-addr-map-read-layout+suffix->records,suffix"),
                         ("nvram-aps:read-layout", "monitor:nvram-aps-keys-read-layout+suffix->records,suffix"),
                         ("nvram-addr:serialize", "monitor:nvram-addr-map-serialize-is-read-layout-and-inverts"),
                         ("nvram-addr:truncation", "monitor:nvram-addr-map-truncations-raise-ValueError"),
                         ("nvram-aps:truncation", "monitor:nvram-aps-keys-truncations-raise-ValueError(non-empty tables)"),
                         ("nvram-addr:dataset", "monitor:nvram-read-path-NVRAMDataset.serialize(addr)"),
                         ("nvram-aps:dataset", "monitor:nvram-read-path-NVRAMDataset.serialize(aps)"),
                         ("nvram-addr:impl-exception", "monitor:nvram-addr-no-unexpected-exception"),
                         ("nvram-aps:impl-exception", "monitor:nvram-aps-no-unexpected-exception")):
        bad = [k for k in fails if k.startswith(prefix)]
        chk.oblige(name, not bad, "; ".join(fails[k][0] for k in bad)[:300])
    chk.oblige("monitor:nvram-get_byte_size=serialized-length", gbs_fail is None, gbs_fail[0] if gbs_fail else "")
    for sts, name in ((("addrparse", "addrparse-random"), "tieB:DSNwkAddrMap.deserialize-vs-model"),
                      (("addrser",), "tieB:DSNwkAddrMap.serialize-vs-model(incl. 256 records refused)"),
                      (("addrlayout", "apslayout"), "tieB:read-layouts-built-here-vs-model-layout-definitions"),
                      (("apsparse", "apsparse-random", "apsparse-empty-cut"), "tieB:DSApsSecureKeys.deserialize-vs-model(any length field)"),
                      (("apsser",), "tieB:DSApsSecureKeys.serialize-vs-model(u16 28n + entries)"),
                      (("zsize", "zser"), "tieB:NVRAMStruct.get_byte_size/serialize-vs-model")):
        bad = [st for st in sts if st in tie_bad]
        chk.oblige(name, model is not None and not bad, json.dumps(tie_bad[bad[0]])[:300] if bad else "")
    if tie_bad and not fails and gbs_fail is None:
        chk.broken.append(BuildBroken("correspondence", "NVRAM containers differ from the model (%s)" % ",".join(sorted(tie_bad)),
                                      json.dumps(tie_bad, default=str)[:3000]))
    return not fails and not tie_bad and gbs_fail is None


# ---------------------------------------------------------------------------------------------- replay
def replay_case(case):
    """Re-run one recorded case on implementation, model and monitor; prints the three observations."""
    model = None
    try:
        with common.Lock():
            common.build_driver("cstruct")
        model = common.Model("cstruct")
    except BuildBroken as b:
        print("model unavailable: %s" % b)
    kind = case.get("kind", "")
    if kind == "cstruct":
        fields, al, vseed = case["fields"], case["align"], case["vseed"]
        print("definition %s align=%s" % (def_tokens(fields), al))
        try:
            mon, lines, _, _ = examine(fields, al, vseed, 2, True)
        except Exception as e:  # noqa: BLE001
            mon, lines = ("impl-exception", "%s: %s" % (type(e).__name__, e)), []
        outs = model.batch([l[1] for l in lines]) if model and lines else [None] * len(lines)
        for (st, line, exp, is_spec), out in zip(lines[:12], outs[:12]):
            if is_spec:
                print("  %-12s %s\n     extracted spec on the impl's layout (layout rule, total-size rule; 1 = holds): %s" % (st, line[:160], out or "?"))
            else:
                print("  %-12s %s\n     impl : %s\n     model: %s" % (st, line[:160], exp[:160], (out or "?")[:160]))
        print("monitor: %s" % (mon[1] if mon else "ok"))
        return 1 if mon else 0
    if kind in ("nvram-addr", "nvram-aps"):
        k = kind.split("-")[1]
        extra = tuple(case["header"]) if k == "addr" else bytes.fromhex(case["redundant4"])
        rs = [list(r) for r in case["records"]]
        try:
            fail, lines = check_nvram_case(k, rs, extra, bytes.fromhex(case["suffix"]), 10 ** 9, random.Random(1))
        except Exception as e:  # noqa: BLE001
            fail, lines = ("impl-exception", "%s: %s" % (type(e).__name__, e)), []
        outs = model.batch([l[1] for l in lines]) if model and lines else [None] * len(lines)
        for (st, line, exp), out in zip(lines[:8], outs[:8]):
            print("  %-12s %s\n     impl : %s\n     model: %s" % (st, line[:160], exp[:160], (out or "?")[:160]))
        print("monitor: %s" % (fail[1] if fail else "ok"))
        return 1 if fail else 0
    print(json.dumps(case, indent=1)[:3000])
    return 0
