"""MANIFEST.setup_cmd: regenerate coq/gen from /repo, build the whole Coq development (full .vo), the driver."""
import os
import sys
import common


def main():
    try:
        with common.Lock():
            for l in common.run_pygen():
                print(l)
            common.lint()
            common.ensure_makefile()
            out = common.make("all", timeout=3000)
            common.build_driver()
    except common.BuildBroken as b:
        print("SETUP-FAIL %s" % b)
        print(b.detail)
        return 1
    print("SETUP-OK")
    return 0
