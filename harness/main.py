"""Entry point of every registered check:  check <Cxx> [--tier quick|thorough] [--replay file]."""
import argparse
import importlib
import os
import sys
import warnings

warnings.simplefilter("ignore")
import logging  # noqa: E402
logging.disable(logging.CRITICAL)
sys.path.insert(0, os.path.dirname(os.path.abspath(__file__)))
import common  # noqa: E402

sys.path.insert(0, common.REPO)


def main():
    ap = argparse.ArgumentParser()
    ap.add_argument("pid")
    ap.add_argument("--tier", default=os.environ.get("VERIF_TIER", "quick"), choices=["quick", "thorough"])
    ap.add_argument("--replay")
    a = ap.parse_args()
    if a.pid == "setup":
        import setup_all
        sys.exit(setup_all.main())
    mod = importlib.import_module("props.%s" % a.pid.lower())
    if a.replay:
        sys.exit(mod.replay(a.replay))
    chk = common.Check(a.pid, a.tier)
    try:
        rc = mod.run(chk)
    except Exception:  # noqa
        # The harness could not complete: the implementation did something no part of the check anticipates (or the
        # harness itself is broken).  Either way the property is not shown to hold: report it, never die silently.
        import traceback
        tb = traceback.format_exc()
        chk.broken.append(common.BuildBroken("correspondence", "the check could not complete: unexpected exception while "
                                             "driving the implementation", tb[-3000:]))
        chk.oblige("check-completed", False, tb[-300:])
        rc = chk.finish()
    sys.exit(rc)


if __name__ == "__main__":
    main()
