"""Driving the real ZBOSS api + ZbossNcpProtocol under a virtual-time asyncio loop (C07, C11, C13, C14, C20).

A scenario is a list of events; after each event the loop is settled (run until nothing is ready) and the
observations since the previous event are recorded:
   W:<rid>.<k>:<seq>   a data frame written: fragment k of request rid, stamped packet sequence seq
   U:<tag>:<seq>       a data frame written by a bare uart.send() caller (C07)
   K:<seq>             an ACK frame written (for an incoming data frame)
   ?:<hex>             any other bytes written
   E:<rid>:<outcome>   request rid ended: R:<RspClass> | TIMEOUT | CANCELLED | RUNTIME | VALUE | NONE | X:<exc type>
   L                   app.connection_lost called
Events:
   ("issue", rid, kind)      kind in KINDS: create_task(api.request(...))
   ("send", tag)             create_task(uart.send(frame))                      (bare uart sender)
   ("ack", n)                an ACK frame with ack sequence n arrives
   ("rsp", kind)             the response frame of kind's command arrives
   ("rsp2", kind1, kind2)    two response frames arrive in one read chunk
   ("listen", kind)          the application registers an indication callback for kind's response command
   ("data",)                 an unrelated indication arrives
   ("tick", ms)              virtual time advances
   ("cancel", rid)           the caller cancels request rid (task.cancel())
   ("cancelsend", tag)
   ("close",) ("lost",) ("reset_begin",) ("reset_end",)    (reset_begin/end: the reset lock held / released)
   ("reset",)                create_task(api.reset())  - the real reset procedure (monitor scenarios only)
"""
import asyncio
import random

from vloop import VLoop, Wire
from impl_link import build_frame_bytes
import access as X

# kind -> (class path, blocking, number of fragments, timeout seconds)
KINDS = {
    "nb1": ("NcpConfig.GetModuleVersion", False, 1, 5),
    "nb1b": ("NcpConfig.GetZigbeeRole", False, 1, 5),
    "nb2": ("APS.DataReq", False, 2, 5),
    "nb3": ("APS.DataReq", False, 3, 5),
    "b1": ("NcpConfig.GetShortAddr", True, 1, 5),
    "b1b": ("ZDO.PermitJoin", True, 1, 5),
    "b2": ("NcpConfig.WriteNVRAM", True, 2, 5),
    "nb1s": ("NcpConfig.GetModuleVersion", False, 1, 2),      # shorter response timeout
}


def get_cls(path):
    import zigpy_zboss.commands as c
    grp, name = path.split(".")
    return getattr(getattr(c, grp), name)


def make_request(kind, rid):
    import zigpy_zboss.types as t
    import wire_common as W
    path, blocking, nfrags, timeout = KINDS[kind]
    helper = get_cls(path)
    rng = random.Random(1000 + rid)
    kw = W.gen_assignment(rng, helper.Req)
    kw["TSN"] = rid % 256
    if path == "APS.DataReq":
        n = {1: 10, 2: 300, 3: 520}[nfrags]
        prng = random.Random("P%d" % rid)
        kw["Payload"] = type(kw["Payload"])([prng.randrange(256) for i in range(n)])
        kw["DataLength"] = n
    if path == "NcpConfig.WriteNVRAM":
        prng = random.Random("D%d" % rid)
        kw["Dataset"] = type(kw["Dataset"])([prng.randrange(256) for i in range(280)])
    req = helper.Req(**kw)
    assert req.blocking == blocking, (kind, req.blocking)
    frs = req.to_frame().handle_tx_fragmentation()
    assert len(frs) == nfrags, (kind, len(frs))
    return req, [bytes(f.serialize()[7:]) for f in frs], timeout


def response_bytes(kind, seq=0, tsn=None):
    import wire_common as W
    path = KINDS[kind][0]
    helper = get_cls(path)
    rng = random.Random(77)
    kw = W.gen_assignment(rng, helper.Rsp)
    kw["StatusCode"] = type(kw["StatusCode"])(0)
    if tsn is not None:
        kw["TSN"] = type(kw["TSN"])(tsn % 256)      # numbers the responses: which one a caller got is observable
    cmd = helper.Rsp(**kw)
    body = bytes(cmd.to_frame().hl_packet.data)
    return build_frame_bytes(int(helper.Rsp.header), body, 0xC0 | (seq << 2))


class Runner:
    def __init__(self, zboss_config=None):
        import zigpy_zboss.config as conf
        from zigpy_zboss.api import ZBOSS
        from zigpy_zboss import uart as U
        self.U = U
        X.prime()
        self.loop = VLoop()
        asyncio.set_event_loop(self.loop)
        raw = {conf.CONF_DEVICE: {conf.CONF_DEVICE_PATH: "/dev/null"}}
        if zboss_config is not None:
            raw[conf.CONF_ZBOSS_CONFIG] = dict(zboss_config)
        cfg = conf.CONFIG_SCHEMA(raw)
        self.api = ZBOSS(cfg)
        self.proto = U.ZbossNcpProtocol(cfg[conf.CONF_DEVICE], self.api)
        self.wire = Wire()
        self.proto.connection_made(self.wire)
        X.aset(self.api, "uart", self.proto)
        self.obs = []
        outer = self

        class App:
            def connection_lost(self, exc):
                outer.obs.append("L")

            def get_sequence(self):
                return 1
        self.api.set_application(App())
        self.tasks = {}       # rid -> task
        self.frag_bodies = {}  # rid -> [bodies]
        self.sends = {}       # tag -> (task, body)
        self.ended = set()
        self.reset_task = None
        self.wpos = 0
        self.rx_seq = 0
        self.wtimes = []      # virtual time (ms) of every data frame written, in order
        outer_loop = self.loop
        orig_write = self.wire.write

        def timed_write(b):
            if not (len(b) == 7 and b[5] & 1):
                outer.wtimes.append(int(round(outer_loop.time() * 1000)))
            orig_write(b)
        self.wire.write = timed_write

    def close(self):
        for t in list(self.tasks.values()) + [s[0] for s in self.sends.values()]:
            if not t.done():
                t.cancel()
        if self.reset_task is not None and not self.reset_task.done():
            self.reset_task.cancel()
        rr = getattr(self, "real_reset", None)
        if rr is not None and not rr.done():
            rr.cancel()
        if hasattr(self, "_orig_connect"):
            self.U.connect = self._orig_connect
        try:
            self.loop.settle()
        except Exception:
            pass
        asyncio.set_event_loop(None)
        self.loop.close()

    def _collect(self):
        out = []
        log = self.wire.log
        while self.wpos < len(log):
            b = bytes(log[self.wpos])
            self.wpos += 1
            if len(b) == 7 and b[5] & 1:
                out.append("K:%d" % ((b[5] >> 4) & 3))
                continue
            body = b[7:]
            seq = (b[5] >> 2) & 3
            hit = None
            for rid, bodies in self.frag_bodies.items():
                for k, fb in enumerate(bodies):
                    if fb == body:
                        hit = "W:%d.%d:%d" % (rid, k, seq)
            for tag, (_, sb) in self.sends.items():
                if sb == body:
                    hit = "U:%s:%d" % (tag, seq)
            out.append(hit or "?:" + b.hex())
        for rid, t in sorted(self.tasks.items()):
            if t.done() and rid not in self.ended:
                self.ended.add(rid)
                if t.cancelled():
                    oc = "CANCELLED"
                else:
                    e = t.exception()
                    if e is None:
                        r = t.result()
                        oc = "NONE" if r is None else "R:%s:%s" % (type(r).__qualname__, int(getattr(r, "TSN", -1)))
                    elif isinstance(e, asyncio.TimeoutError):
                        oc = "TIMEOUT"
                    elif isinstance(e, RuntimeError):
                        oc = "RUNTIME"
                    elif isinstance(e, ValueError):
                        oc = "VALUE"
                    else:
                        oc = "X:" + type(e).__name__
                out.append("E:%d:%s" % (rid, oc))
        for tag, (t, _) in sorted(self.sends.items()):
            if t.done() and ("s", tag) not in self.ended:
                self.ended.add(("s", tag))
                out.append("F:%s:%s" % (tag, "CANCELLED" if t.cancelled() else ("OK" if t.exception() is None else "X:" + type(t.exception()).__name__)))
        out += self.obs
        self.obs = []
        return out

    def step(self, ev):
        k = ev[0]
        loop, api, proto = self.loop, self.api, self.proto
        if k == "issue":
            _, rid, kind = ev
            req, bodies, timeout = make_request(kind, rid)
            self.frag_bodies[rid] = bodies
            self.tasks[rid] = loop.create_task(api.request(req, timeout=timeout))
        elif k == "send":
            import zigpy_zboss.types as t
            from zigpy_zboss.frames import Frame, HLPacket, LLHeader
            tag = ev[1]
            hl = HLPacket(t.HLCommonHeader(0x00990000 + int(tag)), t.Bytes(bytes([int(tag)] * 3)))
            ll = LLHeader().with_signature(Frame.signature).with_size(hl.length + 5).with_type(6).with_flags(0xC0)
            fr = Frame(ll, hl)
            self.sends[tag] = (loop.create_task(proto.send(fr)), bytes(fr.serialize()[7:]))
        elif k == "ack":
            loop.call_soon(proto.data_received, build_frame_bytes(None, b"", 1 | (ev[1] << 4)))
        elif k == "rsp":
            self.rx_seq = self.rx_seq % 3 + 1
            self.rsp_count = getattr(self, "rsp_count", 0) + 1
            loop.call_soon(proto.data_received, response_bytes(ev[1], self.rx_seq, self.rsp_count))
        elif k == "rsp2":
            # two response frames in ONE read chunk (one data_received call)
            self.rx_seq = self.rx_seq % 3 + 1
            self.rsp_count = getattr(self, "rsp_count", 0) + 2
            b1 = response_bytes(ev[1], self.rx_seq, self.rsp_count - 1)
            self.rx_seq = self.rx_seq % 3 + 1
            loop.call_soon(proto.data_received, b1 + response_bytes(ev[2], self.rx_seq, self.rsp_count))
        elif k == "listen":
            # the application registers a callback for the response command of `kind` (any field values): legal, and it
            # must not change what the waiting requests get
            helper = get_cls(KINDS[ev[1]][0])
            self.callbacks = getattr(self, "callbacks", 0)

            def cb(_cmd, _self=self):
                _self.callbacks += 1
            api.register_indication_listener(helper.Rsp(partial=True), cb)
            self.n_callback_listeners = getattr(self, "n_callback_listeners", 0) + 1
        elif k == "data":
            self.rx_seq = self.rx_seq % 3 + 1
            # optional ev[1]: the ACK-number bits of the data frame (meaningless on a data frame: only isACK frames acknowledge)
            ab = (ev[1] & 3) << 4 if len(ev) > 1 else 0
            loop.call_soon(proto.data_received, build_frame_bytes(0x00020600, b"\x01\x02", 0xC0 | (self.rx_seq << 2) | ab))
        elif k == "tick":
            loop.advance(ev[1] / 1000.0)
        elif k == "cancel":
            t = self.tasks.get(ev[1])
            if t is not None:
                t.cancel()
        elif k == "cancelsend":
            t = self.sends.get(ev[1])
            if t is not None:
                t[0].cancel()
        elif k == "uclose":
            loop.call_soon(proto.close)
        elif k == "rflag":
            # the library's own "a reset is in progress" mark on the protocol object (public setter; ZBOSS.reset() sets
            # it): transmission discipline does not depend on it
            proto.reset_flag = True
        elif k == "close":
            loop.call_soon(api.close)
        elif k == "lost":
            # as the transport does it: from inside the event loop
            link = X.aget(api, "uart")
            loop.call_soon((link if link is not None else proto).connection_lost, None)
        elif k == "reset_begin":
            lock_ = X.aget(api, "reset_lock")

            async def hold():
                async with lock_:
                    await asyncio.sleep(3600)
            if self.reset_task is None or self.reset_task.done():
                self.reset_task = loop.create_task(hold())
        elif k == "reset_end":
            if self.reset_task is not None:
                self.reset_task.cancel()
        elif k in ("reset", "reset_nowait"):
            # the REAL api.reset(): NCPModuleReset request, wait for the disconnect, reconnect (uart.connect stubbed)
            U = self.U
            outer = self
            if not hasattr(self, "_orig_connect"):
                self._orig_connect = U.connect

                async def fake_connect(config, api_):
                    p = U.ZbossNcpProtocol(config, api_)
                    outer.wire = Wire()
                    outer.wpos = 0
                    p.connection_made(outer.wire)
                    outer.proto = p
                    return p
                U.connect = fake_connect
            self.real_reset = loop.create_task(api.reset(wait_for_reset=(k == "reset")))
        loop.settle()
        return self._collect()

    def cur_seq(self):
        """The packet sequence number a matching ACK must carry now.  Read from the protocol object when it exposes it;
        otherwise derived from the wire alone (the number stamped on the last data frame written)."""
        try:
            return int(X.pget(self.proto, "pack_seq"))
        except (AttributeError, X.AccessBroken):
            for b in reversed(self.wire.log):
                b = bytes(b)
                if not (len(b) == 7 and b[5] & 1):
                    return (b[5] >> 2) & 3
            return 0

    def listeners(self):
        # one-shot waiters only: callbacks registered by ("listen", kind) stay registered by design
        from zigpy_zboss.utils import OneShotResponseListener
        return sum(1 for v in X.aget(self.api, "listeners").values() for x in v if isinstance(x, OneShotResponseListener))


def run_scenario(events):
    r = Runner()
    try:
        out = []
        for ev in events:
            out.append(r.step(ev))
        nl = r.listeners()
        run_scenario.last_wtimes = list(r.wtimes)
        return out, nl, r.cur_seq()
    finally:
        r.close()


def show(events):
    out, nl, ps = run_scenario(events)
    for ev, o in zip(events, out):
        print("%-28s -> %s" % (ev, " ".join(o)))
    print("listeners=%d pack_seq=%d" % (nl, ps))
