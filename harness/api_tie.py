"""Scenario generation, differential comparison and trace monitors for the API state machine
(C07 at the uart level is in props/c07.py; this serves C11, C13, C14, C20)."""
import json

import api_common as A

CLS_ID = {}  # command path -> small integer class id used by the model


def cls_id(path):
    if path not in CLS_ID:
        CLS_ID[path] = len(CLS_ID) + 10
    return CLS_ID[path]


def ev_text(ev):
    k = ev[0]
    if k == "issue":
        path, blocking, nfrags, timeout = A.KINDS[ev[2]]
        return "I:%d:%d:%d:%d:%d" % (ev[1], cls_id(path), 1 if blocking else 0, nfrags, timeout * 1000)
    if k == "ack":
        return "A:%d" % ev[1]
    if k == "rsp":
        return "R:%d" % cls_id(A.KINDS[ev[1]][0])
    if k == "rsp2":
        return "R2:%d:%d" % (cls_id(A.KINDS[ev[1]][0]), cls_id(A.KINDS[ev[2]][0]))
    if k == "listen":
        return "T:0"        # no effect on requests: an empty step of the model
    if k == "data":
        return "D"
    if k == "tick":
        return "T:%d" % ev[1]
    if k == "cancel":
        return "C:%d" % ev[1]
    return {"close": "X", "lost": "L", "reset_begin": "RB", "reset_end": "RE"}[k]


def strip_r(x):
    """E:rid:R:<class>:<tsn> -> E:rid:R (what the model produces)."""
    return x.split(":")[0] + ":" + x.split(":")[1] + ":R" if x.startswith("E:") and x.split(":")[2] == "R" else x


def strip_steps(steps):
    return [canon_step([strip_r(x) for x in st]) for st in steps]


def canon_step(items):
    """Within one settle the relative order of request endings is not observable: sort them."""
    keep = [x for x in items if not x.startswith("E:")]
    # ACKs written for incoming frames first (two frames in one read chunk are both acknowledged before any woken
    # task runs; the model settles after each frame), then the data frames in order, then the endings
    keep = [x for x in keep if x.startswith("K:")] + [x for x in keep if not x.startswith("K:")]
    ends = sorted(x for x in items if x.startswith("E:"))
    return keep + ends


def impl_run(events):
    out, nl, ps = A.run_scenario(events)
    return [canon_step(o) for o in out], nl, ps


def model_run(model, events):
    line = "api " + " ".join(ev_text(e) for e in events)
    o = model.batch([line])[0]
    if o.startswith("ERROR"):
        raise RuntimeError(o)
    body, tail = o.split(" // ")
    steps = [canon_step([x for x in p.strip().split(" ") if x]) for p in body.split(" / ")]
    nl = int(tail.split("listeners=")[1].split(" ")[0])
    ps = int(tail.split("seq=")[1])
    return steps, nl, ps


def gen_scenario(rng, focus="mixed", length=None):
    """Online generation: the next event is chosen looking at the implementation's current state, so that matching
    ACKs / responses for outstanding requests are frequent."""
    r = A.Runner()
    try:
        events = []
        rid = 0
        issued = []        # (rid, kind)
        n = length or rng.randrange(4, 16)
        kinds_all = ["nb1", "nb1b", "nb2", "nb3", "b1", "b1b", "b2", "nb1s"]
        kinds = {"mixed": kinds_all, "blocking": ["b1", "b1b", "b2", "nb1", "nb2"], "frag": ["nb2", "nb3", "b2", "nb1", "b1"],
                 "close": kinds_all, "cleanup": ["nb1", "nb1", "b1", "nb2", "nb1s"]}[focus]
        closed = False
        for _ in range(n):
            live = [(i, k) for i, k in issued if not r.tasks[i].done()]
            x = rng.random()
            if x < 0.30 or not issued:
                rid += 1
                ev = ("issue", rid, rng.choice(kinds))
                issued.append((rid, ev[2]))
            elif x < 0.52:
                ev = ("ack", r.cur_seq() if rng.random() < 0.8 else rng.randrange(4))
            elif x < 0.68 and live:
                if rng.random() < 0.25:
                    # two responses in one read chunk: a duplicate, or the responses of two outstanding requests
                    a = rng.choice(live)[1]
                    ev = ("rsp2", a, a if rng.random() < 0.5 else rng.choice(live)[1])
                else:
                    ev = ("rsp", rng.choice(live)[1])
            elif x < 0.72:
                ev = ("rsp", rng.choice(issued)[1])
            elif x < 0.80:
                ev = ("tick", rng.choice([1, 300, 999, 1000, 1001, 1700, 4000, 5000, 6000]))
            elif x < 0.88 and live:
                ev = ("cancel", rng.choice(live)[0])
            elif x < 0.91:
                ev = (("data",) if rng.random() < 0.5 else ("data", rng.randrange(4))) if rng.random() < 0.6 or not issued else ("listen", rng.choice(issued)[1])
            elif x < (0.99 if focus == "close" else 0.94) and focus in ("close", "mixed"):
                ev = rng.choice([("close",), ("lost",), ("lost",), ("reset_begin",), ("reset_end",)])
            else:
                ev = ("tick", rng.choice([500, 1000, 5000]))
            events.append(ev)
            r.step(ev)
        if focus == "close":
            events += [("close",), ("tick", 1000), ("issue", rid + 1, "nb1"), ("close",), ("tick", 6000)]
        else:
            events += [("tick", 1000), ("tick", 6000)]
        return events
    finally:
        r.close()


# ----------------------------------------------------------------------------- monitors on the impl log alone
def writes(steps):
    out = []
    for i, st in enumerate(steps):
        for x in st:
            if x.startswith("W:"):
                rid, k = x[2:].split(":")[0].split(".")
                out.append((i, int(rid), int(k)))
    return out


def ends(steps):
    out = {}
    for i, st in enumerate(steps):
        for x in st:
            if x.startswith("E:"):
                _, rid, oc = x.split(":")[:3]
                out[int(rid)] = (i, oc)
    return out


def mon_contiguous(events, steps):
    """C11: at most one data frame per step; fragments of one message contiguous and in order; the response is not
    delivered to the caller before the last fragment."""
    kinds = {e[1]: e[2] for e in events if e[0] == "issue"}
    ws = writes(steps)
    wt = getattr(A.run_scenario, "last_wtimes", None)
    pos = 0
    for i, st in enumerate(steps):
        nw = sum(1 for x in st if x.startswith("W:"))
        if nw > 1:
            # several frames in one step are legitimate only while virtual time advances (each ACK wait expiring)
            if events[i][0] != "tick":
                return "two data frames written in one step (%s) of event %s: the second did not wait for the first one's ACK" % (st, events[i])
            if wt is not None and len(wt) >= pos + nw:
                for a, b in zip(wt[pos:pos + nw], wt[pos + 1:pos + nw]):
                    if b - a < 1000:
                        return "data frames written %d ms apart with no acknowledgement in between" % (b - a)
        pos += nw
    for (i1, r1, k1), (i2, r2, k2) in zip(ws, ws[1:]):
        n1 = A.KINDS[kinds[r1]][2]
        if r2 == r1:
            if k2 != k1 + 1:
                return "request %d: fragment %d written after fragment %d" % (r1, k2, k1)
        else:
            if k2 != 0:
                return "request %d fragment %d written after request %d fragment %d: not a first fragment" % (r2, k2, r1, k1)
            # r1's run was left: either complete, or r1 ended/aborted before the next write
            if k1 != n1 - 1:
                e = ends(steps).get(r1)
                if e is None or e[0] > i2:
                    return ("frame of request %d written between fragments %d and %d of request %d (still in progress)"
                            % (r2, k1, k1 + 1, r1))
    # stop-and-wait: a data frame goes out only after the previous one was acknowledged WITH ITS OWN NUMBER, or its
    # acknowledgement wait expired, or its sender was cancelled / the link closed or lost
    seqs = []
    for i, st in enumerate(steps):
        for x in st:
            if x.startswith("W:"):
                seqs.append((i, int(x.split(":")[2])))
    if wt is not None and len(wt) == len(seqs):
        for j in range(1, len(seqs)):
            (i0, q0), (i1, _) = seqs[j - 1], seqs[j]
            between = events[i0 + 1:i1 + 1]
            acked = any(e[0] == "ack" and e[1] == q0 for e in between)
            released = any(e[0] in ("cancel", "close", "lost", "uclose") for e in between)
            if not acked and not released and wt[j] - wt[j - 1] < 1000:
                return ("data frame %d (step %d) written %d ms after data frame %d (packet number %d) although no acknowledgement with "
                        "that number arrived in between, the acknowledgement wait (1000 ms) had not expired and nobody was cancelled"
                        % (j + 1, i1, wt[j] - wt[j - 1], j, q0))
    en = ends(steps)
    for rid, (i, oc) in en.items():
        if oc == "R":
            n = A.KINDS[kinds[rid]][2]
            last = [i2 for (i2, r2, k2) in ws if r2 == rid and k2 == n - 1]
            if not last or last[0] > i:
                return "request %d returned a response before its last fragment was written" % rid
    return None


def mon_blocking(events, steps):
    """C14: no frame of another blocking request between a blocking request's first frame and its end; blocking
    requests start in issue order."""
    kinds = {e[1]: e[2] for e in events if e[0] == "issue"}
    ws = writes(steps)
    en = ends(steps)
    blocking = {rid for rid, k in kinds.items() if A.KINDS[k][1]}
    first = {}
    for pos, (i, rid, k) in enumerate(ws):
        first.setdefault(rid, pos)
    for rid in blocking & set(first):
        endstep = en.get(rid, (10 ** 9, ""))[0]
        for pos, (i, r2, k2) in enumerate(ws):
            if pos > first[rid] and r2 != rid and r2 in blocking and i <= endstep:
                # same step as the end is fine only if the write comes after the end... steps are atomic: allow equal step
                if i < endstep:
                    return "blocking request %d wrote a frame while blocking request %d was still in progress" % (r2, rid)
    order = [rid for (_, rid, k) in ws if k == 0 and rid in blocking]
    if order != sorted(order):
        return "blocking requests started out of issue order: %s" % order
    return None


def mon_cleanup(events, steps, nl):
    """C13: nothing registered at the end (all requests over); never 'returned nothing'."""
    for st in steps:
        for x in st:
            if x.startswith("E:") and x.endswith(":NONE"):
                return "request %s returned None" % x.split(":")[1]
    issued = {e[1] for e in events if e[0] == "issue"}
    ended = set(ends(steps))
    if issued == ended and nl != 0:
        return "%d listener(s) still registered after every request ended" % nl
    return None


def mon_delivery(events, steps):
    """C13: a response is delivered to the oldest request still waiting for that command - a request that was waiting
    when its response arrived never ends in a response TIMEOUT.  (Only histories without close / loss are judged, and a
    request that is cancelled by its caller is not judged.)"""
    if any(e[0] in ("close", "lost", "uclose") for e in events):
        return None
    cancelled = {e[1] for e in events if e[0] == "cancel"}
    en = ends(steps)
    issued = []          # (rid, class path) in issue order
    served = set()
    for i, e in enumerate(events):
        if e[0] == "issue":
            issued.append((e[1], A.KINDS[e[2]][0]))
        elif e[0] in ("rsp", "rsp2"):
            for kind in e[1:]:
                cls = A.KINDS[kind][0]
                live = [rid for rid, c in issued if c == cls and rid not in served and not (rid in en and en[rid][0] < i)]
                if not live:
                    continue
                r0 = live[0]
                served.add(r0)
                if r0 in cancelled:
                    continue
                if r0 in en and en[r0][1] == "TIMEOUT":
                    return ("request %d was waiting for its response when the response arrived (event %d), but ended with a "
                            "response timeout: the response was not delivered to it" % (r0, i))
    # which response a caller got: the harness numbers the responses it injects (TSN = 1, 2, ...); a request never returns
    # a response that had arrived before the request was issued (such a response was late for an earlier request)
    arrived = {}
    k = 0
    for i, e in enumerate(events):
        if e[0] == "rsp":
            k += 1
            arrived[k % 256] = i
        elif e[0] == "rsp2":
            k += 2
            arrived[(k - 1) % 256] = i
            arrived[k % 256] = i
    issued_at = {e[1]: i for i, e in enumerate(events) if e[0] == "issue"}
    for st in steps:
        for x in st:
            if x.startswith("E:") and ":R:" in x:
                parts = x.split(":")
                rid = int(parts[1])
                try:
                    tsn = int(parts[-1])
                except ValueError:
                    continue
                if tsn in arrived and rid in issued_at and arrived[tsn] < issued_at[rid] and k < 256:
                    return ("request %d (issued at event %d) returned response number %d, which had arrived at event %d - before "
                            "the request existed: a stale response was replayed to it" % (rid, issued_at[rid], tsn, arrived[tsn]))
    return None


def mon_cancel(events, steps):
    """C13: a request cancelled by its caller ends at once, as cancelled - in whatever phase it was (queued, waiting for an
    acknowledgement, waiting for its response); it never keeps running, and never returns a response afterwards."""
    en = ends(steps)
    for i, e in enumerate(events):
        if e[0] != "cancel":
            continue
        rid = e[1]
        if rid in en and en[rid][0] < i:
            continue                      # already over
        if not any(ev[0] == "issue" and ev[1] == rid for ev in events[:i]):
            continue
        if rid not in en:
            return "request %d was cancelled by its caller (event %d) but never ended" % (rid, i)
        if en[rid][0] != i or en[rid][1] != "CANCELLED":
            return ("request %d was cancelled by its caller at event %d but ended at event %d as %s"
                    % (rid, i, en[rid][0], en[rid][1]))
    return None


def mon_close(events, steps):
    """C20: after close (no reset in progress) everything ends within the ACK wait; new requests refused at once;
    connection loss reported once per loss (and not during a reset)."""
    reset = False
    attached = True
    present = True
    expect_L = 0
    closed_at = None
    issued_at = {}
    for i, e in enumerate(events):
        if e[0] == "reset_begin":
            reset = True
        elif e[0] == "reset_end":
            reset = False
        elif e[0] == "issue":
            issued_at[e[1]] = (i, closed_at is not None or not present)
        elif e[0] == "lost":
            if attached and not reset:
                expect_L += 1
            present = False
        elif e[0] == "close":
            if not reset:
                attached = False
                if closed_at is None:
                    closed_at = i
            present = False
    got_L = sum(1 for st in steps for x in st if x == "L")
    if got_L != expect_L:
        return "app.connection_lost called %d times, expected %d" % (got_L, expect_L)
    en = ends(steps)
    for rid, (i, refused) in issued_at.items():
        if refused:
            e = en.get(rid)
            if e is None or e[0] != i or e[1] != "RUNTIME":
                return "request %d issued after close/loss was not refused immediately (%s)" % (rid, e)
    if closed_at is not None:
        # virtual time elapsed after the close
        t = 0
        for i in range(closed_at + 1, len(events)):
            if events[i][0] == "tick":
                t += events[i][1]
            if t >= 1000:
                for rid, (j, _) in issued_at.items():
                    if j < closed_at and (rid not in en or en[rid][0] > i):
                        return "request %d still running %d ms after close" % (rid, t)
                break
    return None


def campaign(chk, n, focus, monitors, extra_events=None):
    model = chk.model
    rng = chk.rng
    tie_bad = None
    mon_bad = None
    for c in range(n):
        events = gen_scenario(rng, focus)
        if extra_events:
            events = extra_events(rng, events)
        isteps, inl, ips = impl_run(events)
        try:
            msteps, mnl, mps = model_run(model, events)
        except Exception as e:  # noqa
            msteps, mnl, mps = [["MODEL-ERROR %s" % e]], -1, -1
        nontrivial = sum(1 for e in events if e[0] == "issue") >= 2
        chk.note_case([ev_text(e) for e in events], nontrivial=nontrivial)
        for e in events:
            chk.count("ev_" + e[0])
        for st in isteps:
            for x in st:
                if x.startswith("E:"):
                    chk.count("outcome_" + x.split(":")[2])
        if (strip_steps(isteps), inl, ips) != (msteps, mnl, mps) and tie_bad is None:
            k = next((i for i, (a, b) in enumerate(zip(strip_steps(isteps), msteps)) if a != b), -1)
            tie_bad = {"events": [ev_text(e) for e in events], "first_diff_step": k,
                       "impl": isteps[k] if k >= 0 else [inl, ips], "model": msteps[k] if 0 <= k < len(msteps) else [mnl, mps]}
        for name, mon in monitors:
            m = mon(events, isteps, inl) if name == "cleanup" else mon(events, isteps)
            if m is not None and mon_bad is None:
                mon_bad = (name, m)
                small = shrink(events, lambda evs: run_mon(mon, name, evs) is not None)
                chk.violation(run_mon(mon, name, small) or m, {"events": [ev_text(e) for e in small], "raw": small,
                                                               "impl": impl_run(small)[0]}, key=None)
        if len(chk.samples) < 3 and nontrivial:
            chk.sample({"events": [ev_text(e) for e in events], "impl": [" ".join(s) for s in isteps]})
    chk.oblige("tieB:api-state-machine-vs-model(%d scenarios, focus=%s)" % (n, focus), tie_bad is None, json.dumps(tie_bad)[:400] if tie_bad else "")
    chk.oblige("monitor:%s-on-impl-traces" % "+".join(nm for nm, _ in monitors), mon_bad is None, repr(mon_bad)[:300] if mon_bad else "")
    if tie_bad and not mon_bad:
        from common import BuildBroken
        chk.broken.append(BuildBroken("correspondence", "api/uart behaviour differs from the state-machine model", json.dumps(tie_bad)))
    return tie_bad, mon_bad


ALPHABET = ["i:nb1", "i:b1", "i:nb2", "i:b1b", "a:cur", "a:stale", "r:nb1", "r:b1", "t:1000", "c:last", "c:first", "X", "L"]


def concretize(abstract):
    """Run the abstract letters online against the implementation: 'a:cur' is the ACK number that matches now, 'c:last' /
    'c:first' the newest / oldest request still running.  Returns (concrete events, steps, listeners, seq)."""
    r = A.Runner()
    try:
        events, steps = [], []
        rid = 0
        issued = []
        for x in abstract:
            if x.startswith("i:"):
                rid += 1
                ev = ("issue", rid, x[2:])
                issued.append(rid)
            elif x == "a:cur":
                ev = ("ack", r.cur_seq())
            elif x == "a:stale":
                ev = ("ack", (r.cur_seq() + 2) % 4)
            elif x.startswith("r:"):
                ev = ("rsp", x[2:])
            elif x.startswith("t:"):
                ev = ("tick", int(x[2:]))
            elif x.startswith("c:"):
                live = [i for i in issued if not r.tasks[i].done()]
                if not live:
                    ev = ("tick", 1)
                else:
                    ev = ("cancel", live[-1] if x == "c:last" else live[0])
            elif x == "X":
                ev = ("close",)
            else:
                ev = ("lost",)
            events.append(ev)
            steps.append(r.step(ev))
        for ev in (("tick", 1000), ("tick", 6000)):
            events.append(ev)
            steps.append(r.step(ev))
        return events, [canon_step(o) for o in steps], r.listeners(), r.cur_seq(), list(r.wtimes)
    finally:
        r.close()


def exhaustive(chk, depth, monitors, letters=None, must_issue=True):
    """EVERY history of at most `depth` letters over the alphabet (each followed by closing ticks), the first letter an issue:
    implementation vs model step by step, and the monitors on every one."""
    import itertools
    letters = letters or ALPHABET
    first = [x for x in letters if x.startswith("i:")] if must_issue else letters
    seqs = []
    for d in range(1, depth + 1):
        for f in first:
            for rest in itertools.product(letters, repeat=d - 1):
                seqs.append((f,) + rest)
    runs = [concretize(a) for a in seqs]
    lines = ["api " + " ".join(ev_text(e) for e in evs) for evs, _, _, _, _ in runs]
    outs = chk.model.batch(lines)
    tie_bad = mon_bad = None
    for (events, isteps, inl, ips, wt), o, a in zip(runs, outs, seqs):
        chk.evaluations += 1
        A.run_scenario.last_wtimes = wt          # the timing monitors read the write times of the run they judge
        if o.startswith("ERROR"):
            msteps, mnl, mps = [["MODEL-ERROR"]], -1, -1
        else:
            body, tail = o.split(" // ")
            msteps = [canon_step([x for x in p_.strip().split(" ") if x]) for p_ in body.split(" / ")]
            mnl = int(tail.split("listeners=")[1].split(" ")[0])
            mps = int(tail.split("seq=")[1])
        if (strip_steps(isteps), inl, ips) != (msteps, mnl, mps) and tie_bad is None:
            k = next((i for i, (x, y) in enumerate(zip(strip_steps(isteps), msteps)) if x != y), -1)
            tie_bad = {"letters": list(a), "events": [ev_text(e) for e in events], "first_diff_step": k,
                       "impl": isteps[k] if k >= 0 else [inl, ips], "model": msteps[k] if 0 <= k < len(msteps) else [mnl, mps]}
        for name, mon in monitors:
            m = mon(events, isteps, inl) if name == "cleanup" else mon(events, isteps)
            if m is not None and mon_bad is None:
                mon_bad = (name, m)
                chk.violation(m, {"letters": list(a), "events": [ev_text(e) for e in events], "raw": events, "impl": isteps}, key=None)
    chk.count("exhaustive_histories", len(seqs))
    chk.oblige("tieB:api-state-machine-vs-model(ALL %d histories of <= %d letters over %d)" % (len(seqs), depth, len(letters)),
               tie_bad is None, json.dumps(tie_bad)[:400] if tie_bad else "")
    chk.oblige("monitor:%s-on-all-short-histories" % "+".join(nm for nm, _ in monitors), mon_bad is None, repr(mon_bad)[:300] if mon_bad else "")
    if tie_bad and not mon_bad:
        from common import BuildBroken
        chk.broken.append(BuildBroken("correspondence", "api/uart behaviour differs from the state-machine model on a short history",
                                      json.dumps(tie_bad)))
    chk.extra.setdefault("exhaustive_parts", []).append("all %d histories of at most %d letters over the %d-letter alphabet %s"
                                                        % (len(seqs), depth, len(letters), letters))
    return tie_bad, mon_bad


def run_mon(mon, name, events):
    steps, nl, ps = impl_run(events)
    return mon(events, steps, nl) if name == "cleanup" else mon(events, steps)


def shrink(events, fails, budget=60):
    cur = list(events)
    changed = True
    n = 0
    while changed and n < budget:
        changed = False
        for i in range(len(cur)):
            cand = cur[:i] + cur[i + 1:]
            n += 1
            try:
                if cand and fails(cand):
                    cur, changed = cand, True
                    break
            except Exception:
                pass
    return cur
