"""Private state of the implementation, resolved by what an attribute DOES, not only by what it is called.

The harness has to put the link-layer object into given states (receive buffer, numbering state, pending acknowledgement
wait) and to read a few pieces of state back (registered waiters, fragments held).  Those live in attributes that are
private to the library; a harmless rewrite may rename any of them.  For each logical piece of state the usual name is
used when a fresh object has it; otherwise the attribute is found by behaviour on throw-away objects (e.g. "the
attribute that IS the transport after connection_made(transport)").  When neither works the access raises
AccessBroken, which the check reports as a correspondence that could not be established.
"""
import asyncio


class AccessBroken(Exception):
    pass


_PROTO_DEFAULT = {"transport": "_transport", "pack_seq": "_pack_seq", "ack_seq": "_ack_seq",
                  "ack_event": "_ack_received_event", "buffer": "_buffer"}
_API_DEFAULT = {"uart": "_uart", "listeners": "_listeners", "rx_fragments": "_rx_fragments",
                "reset_lock": "_reset_uart_reconnect"}
_names = {}
discovered = {}     # logical -> name, for every name that was NOT the usual one (goes into the evidence)


class _StubApi:
    def frame_received(self, f):
        pass

    def connection_lost(self, e):
        pass


class _W:
    def __init__(self):
        from unittest.mock import Mock
        self.log = []
        self.serial = Mock()
        self.serial.name = "fake"

    def write(self, b):
        self.log.append(bytes(b))

    def close(self):
        pass


def _cfg():
    import zigpy_zboss.config as conf
    return conf.CONFIG_SCHEMA({conf.CONF_DEVICE: {conf.CONF_DEVICE_PATH: "/dev/null"}}), conf


def _fresh_proto(api=None):
    from zigpy_zboss import uart as U
    cfg, conf = _cfg()
    return U.ZbossNcpProtocol(cfg[conf.CONF_DEVICE], api or _StubApi())


def _with_loop(fn):
    from vloop import VLoop
    try:
        old = asyncio.get_event_loop_policy().get_event_loop()
    except Exception:  # noqa
        old = None
    loop = VLoop()
    asyncio.set_event_loop(loop)
    try:
        return fn(loop)
    finally:
        try:
            for t in asyncio.all_tasks(loop):
                t.cancel()
            loop.settle()
        except Exception:  # noqa
            pass
        asyncio.set_event_loop(old if old is not None and not old.is_closed() else None)
        loop.close()


def _one(cands, what):
    cands = sorted(set(tuple(c) if not isinstance(c, str) else (c,) for c in cands))
    if len(cands) != 1:
        raise AccessBroken("cannot tell which attribute holds %s (candidates: %s)" % (what, cands))
    return cands[0]


def _attrs(obj):
    """Instance attributes of obj: its __dict__ and its __slots__."""
    out = {}
    d = getattr(obj, "__dict__", None)
    if isinstance(d, dict):
        out.update(d)
    for k in type(obj).__mro__:
        for n in getattr(k, "__slots__", ()) or ():
            if isinstance(n, str) and n not in out:
                try:
                    out[n] = getattr(obj, n)
                except AttributeError:
                    pass
    return out


def _leaves(root, skip=()):
    """(path, value) of every attribute of root and of the library's own helper objects it holds (one level down)."""
    out = []
    for k, v in _attrs(root).items():
        out.append(((k,), v))
        if (type(v).__module__ or "").startswith("zigpy_zboss") and not isinstance(v, type) and not any(v is x for x in skip) \
                and type(v).__name__ not in ("ZBOSS", "ZbossNcpProtocol", "NVRAMHelper", "ControllerApplication"):
            for k2, v2 in _attrs(v).items():
                out.append(((k, k2), v2))
    return out


def _get(obj, path):
    for n in path:
        obj = getattr(obj, n)
    return obj


def _set(obj, path, value):
    for n in path[:-1]:
        obj = getattr(obj, n)
    setattr(obj, path[-1], value)


def _discover_proto(logical):
    from impl_link import build_frame_bytes

    def go(loop):
        p = _fresh_proto()
        if logical == "buffer":
            return _one([k for k, v in _leaves(p) if isinstance(v, bytearray)], "the receive buffer")
        w = _W()
        p.connection_made(w)
        if logical == "transport":
            return _one([k for k, v in _leaves(p) if v is w], "the transport")
        ints0 = {k: v for k, v in _leaves(p) if type(v) is int}
        if logical == "pack_seq":
            p.data_received(build_frame_bytes(None, b"", 0x01))          # ACK carrying number 0: the numbering moves to 1
            return _one([k for k, v in _leaves(p) if type(v) is int and ints0.get(k) == 0 and v == 1],
                        "the number of the next data frame")
        if logical == "ack_seq":
            p.data_received(build_frame_bytes(0x00020600, b"\x01\x02", 0xC0 | (2 << 2)))
            return _one([k for k, v in _leaves(p) if type(v) is int and ints0.get(k) == 0 and v == 2],
                        "the number last acknowledged")
        if logical == "ack_event":
            import zigpy_zboss.types as t
            from zigpy_zboss.frames import Frame, HLPacket, LLHeader
            none0 = [k for k, v in _leaves(p) if v is None]
            hl = HLPacket(t.HLCommonHeader(0x00010000), t.Bytes(b""))
            ll = LLHeader().with_signature(Frame.signature).with_size(hl.length + 5).with_type(6).with_flags(0xC0)
            loop.create_task(p.send(Frame(ll, hl)))
            loop.settle()
            now = dict(_leaves(p))
            return _one([k for k in none0 if hasattr(now.get(k), "is_set") and hasattr(now.get(k), "set")],
                        "the acknowledgement signal")
        raise AccessBroken(logical)
    return _with_loop(go)


def _discover_api(logical):
    from impl_link import build_frame_bytes
    from zigpy_zboss.api import ZBOSS

    def go(loop):
        cfg, conf = _cfg()
        api = ZBOSS(cfg)
        if logical == "uart":
            import zigpy.serial
            made = []

            async def fake(loop=None, protocol_factory=None, **kw):
                p = protocol_factory()
                made.append(p)
                p.connection_made(_W())
                return None, p
            orig = zigpy.serial.create_serial_connection
            zigpy.serial.create_serial_connection = fake
            try:
                tk = loop.create_task(api.connect())
                loop.settle()
                loop.advance(0.01)
                if not made or not tk.done() or tk.exception() is not None:
                    raise AccessBroken("connect() did not complete on a fake serial port")
                return _one([k for k, v in _leaves(api) if v is made[0]], "the link object")
            finally:
                zigpy.serial.create_serial_connection = orig
        if logical == "listeners":
            import zigpy_zboss.commands as c
            maps0 = {k: len(v) for k, v in _leaves(api) if isinstance(v, dict)}
            api.register_indication_listener(c.NcpConfig.GetModuleVersion.Rsp(partial=True), lambda cmd: None)
            return _one([k for k, n in maps0.items() if len(_get(api, k)) == n + 1], "the registered listeners")
        if logical == "rx_fragments":
            from zigpy_zboss.frames import Frame
            lists0 = {k: len(v) for k, v in _leaves(api) if isinstance(v, list)}
            fr, _ = Frame.deserialize(build_frame_bytes(0x00020600, b"\x01\x02", 0x40 | (1 << 2)))   # first, not last
            api.frame_received(fr)
            return _one([k for k, n in lists0.items() if len(_get(api, k)) == n + 1], "the fragments held")
        if logical == "reset_lock":
            p = _fresh_proto(api)
            p.connection_made(_W())
            _set(api, name_api("uart"), p)

            class App:
                def get_sequence(self):
                    return 1

                def connection_lost(self, e):
                    pass
            api.set_application(App())
            locks0 = [k for k, v in _leaves(api, skip=(p,)) if isinstance(v, asyncio.Lock) and not v.locked()]
            loop.create_task(api.reset())
            loop.settle()
            return _one([k for k in locks0 if _get(api, k).locked()], "the reset-in-progress lock")
        raise AccessBroken(logical)
    return _with_loop(go)


def _resolve(kind, logical):
    key = (kind, logical)
    if key in _names:
        return _names[key]
    default = (_PROTO_DEFAULT if kind == "proto" else _API_DEFAULT)[logical]
    if kind == "proto":
        fresh = _fresh_proto()
    else:
        from zigpy_zboss.api import ZBOSS
        fresh = ZBOSS(_cfg()[0])
    settable = logical in ("transport", "pack_seq", "ack_seq", "ack_event", "uart")
    if default in _attrs(fresh) or (not settable and hasattr(fresh, default)):
        _names[key] = (default,)
        return (default,)
    try:
        name = (_discover_proto if kind == "proto" else _discover_api)(logical)
    except AccessBroken:
        raise
    except Exception as e:  # noqa
        raise AccessBroken("looking for %s of the %s object: %s: %s" % (logical, kind, type(e).__name__, e))
    _names[key] = name
    discovered["%s.%s" % (kind, logical)] = ".".join(name)
    return name


def name_proto(logical):
    return _resolve("proto", logical)


def name_api(logical):
    return _resolve("api", logical)


def pget(proto, logical):
    return _get(proto, name_proto(logical))


def pset(proto, logical, value):
    _set(proto, name_proto(logical), value)


def aget(api, logical):
    return _get(api, name_api(logical))


def aset(api, logical, value):
    _set(api, name_api(logical), value)


def stampers(proto):
    """The two helpers that stamp the sequence number and the header checksum, under their usual names, or None."""
    a, b = getattr(proto, "_set_frame_flag", None), getattr(proto, "_ll_checksum", None)
    return (a, b) if callable(a) and callable(b) else None


_primed = []


def prime():
    """Resolve every name now (outside any running event loop); a name that cannot be resolved raises when it is used."""
    if _primed:
        return
    _primed.append(1)
    for kind, table in (("proto", _PROTO_DEFAULT), ("api", _API_DEFAULT)):
        for logical in table:
            try:
                _resolve(kind, logical)
            except AccessBroken:
                pass
